"""C17 — ambiguous or unusable input stops the build instead of yielding a wrong glyph."""
from __future__ import annotations

import ast
from typing import List, Optional, Set

from ..cfg import cfg_of
from ..dataflow import expr_closure
from ..guards import guard_facts
from ..model import (AnalysisError, FuncInfo, Model, calls_in, callee_tail, find_calls, names_in, norm, short, walk_body,
                     walk_no_nested)
from ..model import kwarg
from ..report import RULES, RuleResult
from .c09 import r09d_impl, r09e_impl

# functions on the path write_font.main -> ... -> ColorGlyph.create in which a uniqueness check may live
UNIQ_SITES = [("write_font", "main"), ("write_font", "_inputs"), ("write_font", "_generate_color_font"),
              ("write_font", "_ensure_codepoints_will_have_glyphs"), ("glyphmap", "load_from"), ("glyphmap", "parse_csv")]


def _attr_names(exprs) -> Set[str]:
    out = set()
    for e in exprs:
        for n in ast.walk(e):
            if isinstance(n, ast.Attribute):
                out.add(n.attr)
    return out


def uniqueness_checks(model: Model, attr: str) -> List[str]:
    """Raise sites that reject a repeated value of `.attr` (seen-set / len(set) / Counter idioms)."""
    found = []
    uniqueness_checks.pair_keys = []
    from .. import report as _report
    sites = list(UNIQ_SITES)
    # helper functions that did not exist when the sites were read (an extracted check) are searched too
    for modname in sorted({m for m, _ in UNIQ_SITES}):
        for qn in model.mod(modname).functions:
            if _report.CURRENT_DRIFT.get(f"{modname}.{qn}", 0) is None and (modname, qn) not in sites:
                sites.append((modname, qn))
    for modname, fn in sites:
        mod = model.mod(modname)
        if not mod.has_func(fn):
            continue
        fi = mod.func(fn)
        cfg = cfg_of(fi)
        for st in walk_body(fi):
            if not isinstance(st, ast.Raise):
                continue
            at = cfg.node_for(st)
            for e, pol in guard_facts(cfg, at):
                # idiom 1: `if K in seen: raise` with seen.add(K) in the same function
                if isinstance(e, ast.Compare) and len(e.ops) == 1 and (
                    (isinstance(e.ops[0], ast.In) and pol) or (isinstance(e.ops[0], ast.NotIn) and not pol)
                ):
                    key, container = e.left, e.comparators[0]
                    _, kexprs = expr_closure(cfg, at, key)
                    # the key must identify by this attribute alone: a set keyed on (glyph_name, codepoints) pairs only rejects
                    # inputs that coincide in BOTH and establishes uniqueness of neither
                    if _attr_names(kexprs) & {"glyph_name", "codepoints"} == {"glyph_name", "codepoints"}:
                        uniqueness_checks.pair_keys.append((fi, st, short(e, 70)))
                    if _attr_names(kexprs) & {"glyph_name", "codepoints"} != {attr}:
                        continue
                    adds = [c for c in calls_in(fi) if callee_tail(c) in ("add", "append") and isinstance(c.func, ast.Attribute)
                            and norm(c.func.value) == norm(container) and c.args and norm(c.args[0]) == norm(key)]
                    if adds:
                        found.append(f"{fi.fq}: if {short(e, 60)}: raise ...; {short(adds[0], 60)}")
                # idiom 2: len(set(xs)) != len(xs)
                if isinstance(e, ast.Compare) and len(e.ops) == 1 and "len(" in norm(e) and "set(" in norm(e) or \
                        (isinstance(e, ast.Compare) and "len(" in norm(e) and any(isinstance(n, (ast.SetComp, ast.Set)) for n in ast.walk(e))):
                    neq = (isinstance(e.ops[0], (ast.NotEq, ast.Lt, ast.Gt)) and pol) or (isinstance(e.ops[0], ast.Eq) and not pol)
                    _, kexprs = expr_closure(cfg, at, e)
                    if neq and attr in _attr_names(kexprs):
                        found.append(f"{fi.fq}: if {short(e, 70)}: raise")
                # idiom 3: Counter count > 1
                if isinstance(e, ast.Compare) and pol and isinstance(e.ops[0], (ast.Gt, ast.GtE)) and norm(e.comparators[0]) in ("1", "2"):
                    names, kexprs = expr_closure(cfg, at, e)
                    if any("Counter(" in norm(x) for x in kexprs) and attr in _attr_names(kexprs):
                        found.append(f"{fi.fq}: Counter idiom {short(e, 60)}")
    return found


@RULES.rule("C17", "R17a", "duplicate glyph names / codepoint sequences are rejected before glyphs are created", floor=2)
def r17a(model: Model, rr: RuleResult):
    gfi = model.func("write_font", "_generate_color_font")
    creates = [c for c in calls_in(gfi) if norm(c.func) == "ColorGlyph.create"]
    if len(creates) != 1:
        raise AnalysisError("_generate_color_font: expected one ColorGlyph.create call")
    for attr, what in (("glyph_name", "glyph name"), ("codepoints", "codepoint sequence")):
        got = uniqueness_checks(model, attr)
        if got:
            rr.ok(f"{what}: {got[0]}")
        elif uniqueness_checks.pair_keys:
            pfi, pst, ptxt = uniqueness_checks.pair_keys[0]
            rr.bad(pfi, pst, f"the only duplicate check is keyed on glyph name AND codepoints together (`{ptxt}`): two inputs that share just the {what} pass it, are merged "
                   f"into one glyph and the build exits 0", construct=f"uniqueness check on the (glyph_name, codepoints) pair instead of {attr}")
        else:
            rr.bad_shape(gfi, creates[0], f"no check rejects two inputs that resolve to the same {what} on the path write_font.main -> "
                   f"ColorGlyph.create: they are merged into one glyph and the build exits 0",
                   construct=f"_generate_color_font: no uniqueness check on {attr}")
    # the merge site: ColorGlyph.create reuses an existing ufo glyph of the same name (that is what makes duplicates silent)
    cfi = model.func("color_glyph", "ColorGlyph.create")
    rr.remarks.append("ColorGlyph.create reuses ufo[ufo_glyph_name] when it exists (needed for .notdef/.space/blank glyphs), so "
                      "uniqueness must be established by the caller")


# raise sites the property relies on: (module, function, substring that identifies the raise, what it rejects)
RAISE_SITES = [
    ("colors", "Color.fromstring", "expected 3, 4, 6, or 8 hex digits", "malformed hex colour"),
    ("colors", "Color.fromstring", "expected 3 rgb() values", "malformed rgb()"),
    ("colors", "Color.fromstring", "invalid or unsupported color string", "unknown colour string"),
    ("colors", "uniq_sort_cpal_colors", "already maps to", "conflicting palette indices"),
    ("color_glyph", "_common_gradient_parts", "Unknown spreadMethod", "unknown spreadMethod"),
    ("write_font", "_inputs", "Unable to parse", "unparseable SVG"),
    ("write_font", "_inputs", "No svg file for glyph", "missing svg"),
    ("write_font", "_inputs", "No bitmap file for glyph", "missing bitmap"),
    ("bitmap_tables", "raise_if_too_big_for_cbdt", "too big for CBDT", "oversize bitmap"),
    ("config", "load", "must have unique names", "duplicate source names in a master"),
    ("config", "load", "srcs don't match", "masters disagree on source sets"),
    ("config", "load", "Must have at least one master", "no master"),
    ("config", "load", "Unexpected '{axis_tag}' config", "unknown key in an [axis.*] section"),
    ("config", "load", "Unexpected '{master_name}' config", "unknown key in a [master.*] section"),
    ("config", "load", "Unexpected config", "unknown top-level key"),
    ("svg", "_add_glyph", "What do we do with", "paint kind the OT-SVG writer cannot express"),
    ("svg", "_add_glyph", "must declare view box", "OT-SVG source without viewBox"),
    ("write_font", "main", "expects only one master", "multi-master config given to write_font"),
]


def _callers_catching(model: Model, fi: FuncInfo, exc_names: Set[str], depth: int = 4, seen=None) -> List[str]:
    """Handlers on call paths to `fi` that catch one of exc_names (or a base) without re-raising."""
    seen = seen or set()
    out = []
    if depth == 0 or fi.fq in seen:
        return out
    seen.add(fi.fq)
    for caller in model.all_functions():
        for c in calls_in(caller):
            tgt = model.resolve_call(caller, c)
            if tgt is not fi:
                continue
            # is the call inside a try whose handler catches the exception?
            for node in ast.walk(caller.node):
                if isinstance(node, ast.Try) and any(n is c for b in node.body for n in ast.walk(b)):
                    for h in node.handlers:
                        tys = {"<bare>"} if h.type is None else ({norm(e) for e in h.type.elts} if isinstance(h.type, ast.Tuple) else {norm(h.type)})
                        tys = {t.split(".")[-1] for t in tys}
                        if tys & (exc_names | {"Exception", "BaseException", "<bare>"}):
                            if not any(isinstance(n, ast.Raise) for n in ast.walk(h)):
                                out.append(f"{caller.fq}: except {sorted(tys)}")
            out += _callers_catching(model, caller, exc_names, depth - 1, seen)
    return out


@RULES.rule("C17", "R17b", "the raise sites the property relies on exist, are reachable, and are not caught on the way to main", floor=12)
def r17b(model: Model, rr: RuleResult):
    """Raise sites are counted per function (not matched by message text, so rewording a message is not an alarm):
    the number of live `raise` statements must not fall below the number confirmed by reading."""
    per_fn = {}
    for modname, fn, needle, what in RAISE_SITES:
        per_fn.setdefault((modname, fn), []).append(what)
    callers_cache = {}
    for (modname, fn), whats in per_fn.items():
        fi = model.func(modname, fn)
        cfg = cfg_of(fi)
        live = []
        reach = cfg.reachable_from(cfg.entry)
        for st in walk_body(fi, nested=False):
            if isinstance(st, ast.Raise) and st.exc is not None:
                n = cfg.node_for(st)
                if n not in reach:
                    continue
                facts = guard_facts(cfg, n)
                if any(isinstance(e, ast.Constant) and bool(e.value) != pol for e, pol in facts):
                    continue
                # re-raise wrappers inside handlers count as raise sites too
                live.append(st)
        if len(live) < len(whats):
            rr.bad_shape(fi, fi.node, f"{modname}.{fn} has {len(live)} live raise statement(s) but rejects {len(whats)} input classes "
                   f"({'; '.join(whats)}): at least one is now accepted silently",
                   construct=f"{modname}.{fn}: {len(live)} live raises < {len(whats)} ({'; '.join(whats)})")
            continue
        enames = set()
        for st in live:
            exc = st.exc
            ename = norm(exc.func) if isinstance(exc, ast.Call) else norm(exc)
            enames.add(ename.split(".")[-1])
        bases = set(enames) | {"OSError" if "IOError" in enames else "Exception"} | {"Exception"}
        catching = _callers_catching(model, fi, bases)
        if catching:
            rr.bad(fi, live[0], f"{sorted(enames)} raised by {modname}.{fn} ({'; '.join(whats)}) is caught without re-raising by {catching[:2]}",
                   construct=f"{modname}.{fn} raises caught by {catching[0]}")
        else:
            for w in whats:
                rr.ok(f"{modname}.{fn}: rejects {w} ({len(live)} live raises; no handler on the call paths swallows {sorted(enames)})")


@RULES.rule("C17", "R17c", "failure propagates to the exit status (= R09d)", floor=12)
def r17c(model: Model, rr: RuleResult):
    r09d_impl(model, rr)


@RULES.rule("C17", "R17d", "output fonts are written last (= R09e)", floor=6)
def r17d(model: Model, rr: RuleResult):
    r09e_impl(model, rr)


@RULES.rule("C17", "R17e", "names used on error paths are bound (remark only)", floor=1)
def r17e(model: Model, rr: RuleResult):
    """pyflakes-style scope check restricted to raise statements. Unbound names make the build stop with a NameError
    instead of the intended message: still a non-zero exit, so this is reported as a remark, not a violation."""
    import builtins

    n = 0
    for fi in model.all_functions():
        if isinstance(fi.node, ast.Lambda):
            continue
        cfg = None
        for st in walk_body(fi):
            if isinstance(st, ast.Raise) and st.exc is not None:
                n += 1
                if cfg is None:
                    cfg = cfg_of(fi)
                at = cfg.node_for(st)
                bound_in_comp = set()
                for x in ast.walk(st.exc):
                    if isinstance(x, ast.comprehension):
                        bound_in_comp |= names_in(x.target)
                for nm in names_in(st.exc):
                    if nm in bound_in_comp or hasattr(builtins, nm):
                        continue
                    if cfg.reaching(at, nm) or cfg.all_defs(nm):
                        continue
                    mod = fi.module
                    if nm in mod.imports or nm in mod.assigns or nm in mod.functions or nm in mod.classes:
                        continue
                    p = fi.parent
                    ok = False
                    while p is not None:
                        if cfg_of(p).all_defs(nm):
                            ok = True
                        p = p.parent
                    if not ok:
                        rr.remarks.append(f"{fi.fq}: name '{nm}' in {short(st, 70)} is never bound (NameError instead of the intended message; exit is still non-zero)")
    rr.ok(f"{n} raise statements scanned for unbound names")


@RULES.rule("C17", "R17f", "masters must have EQUAL source-name sets (symmetric comparison)", floor=1)
def r17f(model: Model, rr: RuleResult):
    fi = model.func("config", "load")
    cfg = cfg_of(fi)
    A, B = "source_names", "master_source_names"
    verdict = None
    where = None
    for st in walk_body(fi):
        if not isinstance(st, ast.Raise):
            continue
        at = cfg.node_for(st)
        for t, lab in cfg.controlling_tests(at):
            test = getattr(cfg.nodes[t].ast, "test", None)
            if test is None:
                continue
            names, exprs = expr_closure(cfg, t, test)
            if not ({A, B} <= names):
                continue
            txts = [norm(e).replace(" ", "") for e in exprs]
            sym = any(any(pat in x for pat in (f"{A}!={B}", f"{B}!={A}", f"{A}=={B}", f"{B}=={A}")) for x in txts) or any(f"{A}^{B}" in x or f"{B}^{A}" in x or "symmetric_difference" in x for x in txts) \
                or (any(f"{A}-{B}" in x for x in txts) and any(f"{B}-{A}" in x for x in txts))
            one = any(f"{A}-{B}" in x or f"{B}-{A}" in x or "issubset" in x or "issuperset" in x or f"{A}<={B}" in x or f"{A}>={B}" in x for x in txts)
            if sym:
                verdict, where = "sym", st
            elif one and verdict is None:
                verdict, where = "one", st
    # comparing the two name collections element-wise through zip() stops at the shorter one
    zips = []
    for st in walk_body(fi):
        if isinstance(st, (ast.For, ast.comprehension)):
            it = st.iter
            if isinstance(it, ast.Call) and isinstance(it.func, ast.Name) and it.func.id == "zip" and len(it.args) == 2:
                t = norm(it)
                if A in t and B in t:
                    zips.append(st)
    if verdict != "sym" and zips:
        rr.bad(fi, zips[0] if isinstance(zips[0], ast.stmt) else fi.node, f"the masters' source names are compared pairwise through zip({A}, {B}), which stops at the shorter collection: "
               f"a master with an extra (or missing) source that sorts last is accepted", construct="config.load: zip() comparison of source_names and master_source_names")
        return
    if verdict == "sym":
        rr.ok("a master whose source-name set differs from the first master's in either direction is rejected")
    elif verdict == "one":
        rr.bad(fi, where, "masters' source sets are compared in one direction only: a later master with an extra source is accepted and the variable font "
               "silently lacks that glyph", construct="config.load: one-sided comparison of source_names and master_source_names")
    else:
        rr.bad_shape(fi, fi.node, "no check compares the source-name sets of the masters", construct="config.load: masters source sets unchecked")


LOSSY_EXTRACTORS = {"findall", "finditer", "search", "sub", "subn", "split_lossy", "translate", "strip_non_numeric"}


@RULES.rule("C17", "R17g", "the colour parser converts whole tokens: nothing it cannot read is skipped silently", floor=3)
def r17g(model: Model, rr: RuleResult):
    """`float('100%')` raises; `re.findall(number, '100%')` returns ['100'].  A tokeniser that extracts what it recognises and ignores the
    rest turns unsupported syntax (percentages, units, extra components) into a different colour instead of an error."""
    fi = model.func("colors", "Color.fromstring")
    lossy = [c for c in calls_in(fi, nested=True) if callee_tail(c) in LOSSY_EXTRACTORS and not (isinstance(c.func, ast.Attribute) and isinstance(c.func.value, ast.Constant))]
    for c in lossy:
        rr.bad(fi, c, f"{short(c, 70)} extracts the parts it recognises and silently skips the rest of the colour string: unsupported forms such as rgb(100%, 0%, 0%) are "
               f"read as some other colour instead of being rejected", construct=f"Color.fromstring: lossy tokeniser {short(c.func)}")
    if not lossy:
        rr.ok("Color.fromstring uses no partial-match extractor (findall/finditer/search/sub)")
    # rgb(): separated by split, each token converted by float()
    cfg = cfg_of(fi)
    conv = [c for c in calls_in(fi, nested=True) if isinstance(c.func, ast.Name) and c.func.id == "float" and len(c.args) == 1]
    splits = [c for c in calls_in(fi, nested=True) if callee_tail(c) == "split"]
    if conv and splits:
        rr.ok("rgb(): tokens come from str.split and go through float(), which rejects anything that is not a number")
    else:
        rr.bad_shape(fi, fi.node, "rgb(): components are no longer whole split tokens converted by float()", construct="Color.fromstring: rgb() tokenisation")
    hexes = [c for c in calls_in(fi, nested=True) if isinstance(c.func, ast.Name) and c.func.id == "int" and len(c.args) == 2 and norm(c.args[1]) == "16"]
    # the accepted lengths are exactly 3, 4 (doubled), 6, 8: membership tests, not inequalities
    lens = [c for c in ast.walk(fi.node) if isinstance(c, ast.Compare) and any(isinstance(x, ast.Call) and norm(x) == "len(ss)" for x in [c.left] + c.comparators)]
    ineq = [c for c in lens if any(isinstance(o, (ast.Lt, ast.Gt, ast.LtE, ast.GtE)) for o in c.ops)]
    member = [c for c in lens if any(isinstance(o, (ast.In, ast.NotIn)) for o in c.ops)]
    if ineq:
        rr.bad(fi, ineq[0], f"#hex: the digit count is tested with an inequality ({short(ineq[0])}): lengths other than 3, 4, 6, 8 (e.g. 7, or more than 8 digits) are accepted "
               f"and read as some colour instead of being rejected", construct=f"Color.fromstring: hex length test {short(ineq[0])}")
    elif member:
        sets = sorted({e.value for c in member for x in c.comparators if isinstance(x, (ast.Tuple, ast.Set, ast.List)) for e in x.elts if isinstance(e, ast.Constant)})
        if set(sets) == {3, 4, 6, 8}:
            rr.ok("#hex: accepted lengths are exactly 3, 4, 6, 8")
        else:
            rr.bad(fi, member[0], f"#hex: accepted lengths are {sets}, expected 3, 4, 6, 8", construct=f"Color.fromstring: hex lengths {sets}")
    if len(hexes) >= 3 or (len(hexes) >= 1 and any(isinstance(n, (ast.GeneratorExp, ast.ListComp)) and any(h in list(ast.walk(n)) for h in hexes) for n in ast.walk(fi.node))):
        rr.ok("#hex: every channel goes through int(.., 16), which rejects non-hex digits")
    else:
        rr.bad_shape(fi, fi.node, "#hex: channels are no longer converted by int(.., 16)", construct="Color.fromstring: hex conversion")


NON_COLOUR_KEYWORDS = {"transparent", "none", "inherit", "currentcolor", "initial", "unset"}


@RULES.rule("C17", "R17h", "nothing thins out the inputs before they are checked; the colour-name table holds opaque colours only", floor=2)
def r17h(model: Model, rr: RuleResult):
    fi = model.func("nanoemoji", "_run")
    cfg = cfg_of(fi)
    loads = [c for c in calls_in(fi) if callee_tail(c) in ("load_configs", "load") and kwarg(c, "additional_srcs") is not None]
    if not loads:
        raise AnalysisError("nanoemoji._run: config.load(..., additional_srcs=...) not found")
    for c in loads:
        a = kwarg(c, "additional_srcs")
        _, exprs = expr_closure(cfg, cfg.node_for(c), a)
        keyed = [n for e in exprs for n in ast.walk(e) if isinstance(n, (ast.DictComp, ast.SetComp)) or (isinstance(n, ast.Call) and isinstance(n.func, ast.Name) and n.func.id in ("set", "dict", "frozenset"))]
        if keyed:
            rr.bad(fi, c, f"the .svg arguments pass through {short(keyed[0], 70)} before config.load sees them: two different files with the same name (or key) collapse into one, "
                   f"so the 'Input svgs must have unique names' check never fires and one source is dropped silently", construct=f"_run: additional_srcs via {type(keyed[0]).__name__}")
        else:
            rr.ok(f"_run: {short(c, 50)} receives every .svg argument")
    table = model.mod("colors").const("_CSS_COLORS")
    if not isinstance(table, ast.Dict):
        raise AnalysisError("colors._CSS_COLORS is not a dict literal")
    odd = [k.value for k in table.keys if isinstance(k, ast.Constant) and str(k.value).lower() in NON_COLOUR_KEYWORDS]
    if odd:
        rr.bad(model.mod("colors"), table, f"_CSS_COLORS maps {odd} to an RGB triple: the table carries no alpha, so the keyword is read as an opaque colour instead of being rejected as "
               f"unsupported", construct=f"_CSS_COLORS: {odd}")
    else:
        rr.ok(f"_CSS_COLORS: {len(table.keys)} named colours, none of the non-colour keywords")
