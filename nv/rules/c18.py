"""C18 — a variable colour font reproduces each master at its location (structural clauses)."""
from __future__ import annotations

import ast
from typing import List, Optional, Set

from ..cfg import cfg_of
from ..dataflow import expr_closure
from ..guards import guard_facts
from ..model import (AnalysisError, FuncInfo, Model, calls_in, callee_tail, find_calls, kwarg, names_in, norm, short, walk_body)
from ..report import RULES, RuleResult


def from_binder(fi: FuncInfo, at_node: ast.AST, expr: ast.AST, binder: str, collection_hint: str) -> Optional[str]:
    """None when `expr` derives from loop binder/parameter `binder` and from no other element of the collection;
    otherwise a reason."""
    cfg = cfg_of(fi)
    at = cfg.node_for(at_node)
    names, exprs = expr_closure(cfg, at, expr)
    if binder not in names:
        return f"does not derive from '{binder}'"
    for e in exprs:
        for n in ast.walk(e):
            if isinstance(n, ast.Subscript) and collection_hint in norm(n.value):
                return f"indexes {short(n)} instead of using '{binder}'"
            if isinstance(n, ast.Call) and callee_tail(n) == "default" and "config" in norm(n.func):
                return f"uses {short(n)} (the default master) instead of '{binder}'"
    return None


@RULES.rule("C18", "R18a", "one UFO per master, built from that master's own config, glyphmap and sources", floor=7)
def r18a(model: Model, rr: RuleResult):
    nm = model.mod("nanoemoji")
    in_callee_loop = None
    if nm.has_func("write_ufo_build"):
        fi = nm.func("write_ufo_build")
        M = "master"
        if M not in fi.params:
            raise AnalysisError("write_ufo_build: no 'master' parameter")
    else:
        # by role: the function that emits the write_font edge whose output is <binder>.output_ufo; the binder is a parameter or the variable of a loop over font_config.masters
        cands = []
        for f in nm.functions.values():
            if isinstance(f.node, ast.Lambda):
                continue
            for c in calls_in(f):
                if callee_tail(c) == "build" and len(c.args) >= 2 and isinstance(c.args[0], ast.Attribute) and c.args[0].attr == "output_ufo" and isinstance(c.args[0].value, ast.Name) \
                        and norm(c.args[1]) == "'write_font'":
                    cands.append((f, c))
        if len(cands) > 1:
            # a new helper is also inlined into its callers by the normaliser: read the helper itself
            import json
            from ..normalize import REF_FILE
            ref = json.loads(REF_FILE.read_text())
            fresh = [(f, c) for f, c in cands if f"nanoemoji:{f.qualname}" not in ref]
            cands = fresh if len(fresh) == 1 else cands
        if len(cands) != 1:
            raise AnalysisError("function nanoemoji.write_ufo_build not found and no single function emits the per-master UFO edge")
        fi, bc = cands[0]
        M = bc.args[0].value.id
        if M not in fi.params:
            loops = [l for l in walk_body(fi) if isinstance(l, ast.For) and isinstance(l.target, ast.Name) and l.target.id == M and norm(l.iter).endswith(".masters") and any(x is bc for x in ast.walk(l))]
            if len(loops) != 1:
                raise AnalysisError(f"{fi.name}: '{M}' is neither a parameter nor the variable of a loop over the masters")
            in_callee_loop = loops[0]
    FN = fi.name
    cfg = cfg_of(fi)
    # ufo_config = font_config._replace(output_file=master.output_ufo, masters=(master,))
    rep = [c for c in calls_in(fi) if callee_tail(c) == "_replace" and "font_config" in norm(c.func)]
    if len(rep) != 1:
        raise AnalysisError(f"{FN}: font_config._replace(...) not found")
    of, ms = kwarg(rep[0], "output_file"), kwarg(rep[0], "masters")
    if of is not None and norm(of) == f"{M}.output_ufo" and ms is not None and norm(ms) in (f"({M},)", f"[{M}]"):
        rr.ok("UFO config = font_config._replace(output_file=master.output_ufo, masters=(master,))")
    else:
        rr.bad(fi, rep[0], "the per-master UFO config is not restricted to this master / does not write to this master's UFO", construct=short(rep[0], 140))
    us = find_calls(fi, "_update_sources")
    if len(us) == 1:
        rr.ok("UFO config sources are redirected to the build's picosvgs (_update_sources)")
    else:
        rr.bad(fi, fi.node, "UFO config sources are not redirected to picosvg outputs", construct=f"{FN}: _update_sources")
    wr = [c for c in calls_in(fi) if norm(c.func) == "config.write"]
    if len(wr) == 1 and "ufo_config_file" in norm(wr[0].args[0]) and from_binder(fi, wr[0], wr[0].args[1], M, "masters") is None:
        rr.ok("the UFO config written to the per-master file derives from this master")
    else:
        rr.bad(fi, fi.node, "the written UFO config file/content does not derive from this master", construct=f"{FN}: config.write")
    b = find_calls(fi, "build")
    if len(b) != 1:
        raise AnalysisError(f"{FN}: expected one nw.build")
    if norm(b[0].args[0]) == f"{M}.output_ufo":
        rr.ok("edge output = master.output_ufo")
    else:
        rr.bad(fi, b[0], "UFO edge output is not this master's UFO", construct=short(b[0], 120))
    # variables: glyphmap and config of the same master
    vcall = find_calls(fi, "_variables_for_font_build")
    hoisted = in_callee_loop is not None and len(vcall) == 1 and not any(x is vcall[0] for x in ast.walk(in_callee_loop))
    if len(vcall) == 1 and norm(vcall[0].args[1]) == M and not hoisted:
        rr.ok("_variables_for_font_build(font_config, master, ...) uses this master")
    elif hoisted:
        rr.bad(fi, vcall[0], f"`{short(vcall[0], 100)}` is evaluated once, outside the loop over the masters: every master's UFO edge gets the same glyphmap_file (the "
               f"{'default master' if 'default()' in norm(vcall[0]) else 'first evaluated'}'s), i.e. is built from another master's artwork", construct=f"{FN}: font-build variables hoisted out of the per-master loop")
    else:
        rr.bad(fi, fi.node, "font-build variables are not computed for this master", construct=f"{FN}: _variables_for_font_build args")
    ucf = find_calls(fi, "_ufo_config")
    if len(ucf) == 1 and norm(ucf[0].args[1]) == M:
        rr.ok("config file name = _ufo_config(font_config, master)")
    else:
        rr.bad(fi, fi.node, "per-master config file name does not depend on this master", construct=f"{FN}: _ufo_config")
    vfi = model.func("nanoemoji", "_variables_for_font_build")
    gm = [c for c in calls_in(vfi) if callee_tail(c) == "_glyphmap_file"]
    if len(gm) == 1 and norm(gm[0].args[1]) == vfi.params[1]:
        rr.ok("glyphmap_file = _glyphmap_file(font_config, master) of the same master")
    else:
        rr.bad(vfi, vfi.node, "glyphmap variable is not the given master's glyphmap", construct="_variables_for_font_build: glyphmap_file")
    gfi = model.func("nanoemoji", "_glyphmap_file")
    if "master.output_ufo" in " ".join(norm(n) for n in walk_body(gfi)) and any(isinstance(n, ast.If) and "is_vf" in norm(n.test) for n in walk_body(gfi)):
        rr.ok("_glyphmap_file distinguishes masters by output_ufo when is_vf")
    else:
        rr.bad_shape(gfi, gfi.node, "glyphmap file name does not distinguish masters of a variable font", construct="_glyphmap_file")
    # glyphmap edges: one per (config, master) with that master's inputs
    rfi = model.func("nanoemoji", "_run")
    okloop = False
    for st in walk_body(rfi):
        if isinstance(st, ast.For) and norm(st.iter) == "font_config.masters" and isinstance(st.target, ast.Name):
            for c in calls_in(st):
                if callee_tail(c) == FN and norm(c.args[-1]) == st.target.id:
                    okloop = True
    if in_callee_loop is not None and norm(in_callee_loop.iter) == "font_config.masters":
        okloop = any(callee_tail(c) == FN for c in calls_in(rfi))
    if okloop:
        rr.ok("_run: write_ufo_build is called for every master with the loop's own master")
    else:
        rr.bad(rfi, rfi.node, "_run does not emit one UFO edge per master", construct="_run: write_ufo_build loop")
    # the variable-font edge depends on every master's UFO
    wfi = model.func("nanoemoji", "write_variable_font_build")
    b = find_calls(wfi, "build")
    imp = kwarg(b[0], "implicit") if b else None
    if imp is not None and "m.output_ufo for m in font_config.masters" in norm(imp):
        rr.ok("variable-font edge lists every master's UFO as implicit input")
    else:
        rr.bad_shape(wfi, wfi.node, "variable-font edge does not depend on every master's UFO", construct=f"write_variable_font_build implicit={short(imp)}")


@RULES.rule("C18", "R18b", "designspace: UFO, style name and location of a source come from the same master; axis ranges from positions of the same axis", floor=7)
def r18b(model: Model, rr: RuleResult):
    fi = model.func("write_variable_font", "main")
    cfg = cfg_of(fi)
    loops = [st for st in walk_body(fi) if isinstance(st, ast.For) and norm(st.iter) == "font_config.masters"]
    # positive evidence: masters paired positionally with a list that comes from the command line (whose order is whatever the driver listed)
    for st in walk_body(fi):
        if isinstance(st, ast.For) and isinstance(st.iter, ast.Call) and norm(st.iter.func) in ("zip", "enumerate") and any("font_config.masters" == norm(a) for a in st.iter.args):
            others = [a for a in st.iter.args if norm(a) != "font_config.masters"]
            for o in others:
                names, _ = expr_closure(cfg, cfg.node_for(st), o)
                if names & {"argv", "ufos"} or any(p in names for p in fi.params):
                    rr.bad(fi, st, f"masters are paired by position with {short(o)} (taken from the command line): the UFO opened for a master is whichever file the driver happened to "
                           f"list at that position, not that master's own output_ufo - with the default master listed first by the driver and second in the config, artwork and "
                           f"locations are mis-paired", construct=f"write_variable_font.main: zip(font_config.masters, {short(o)})")
                    return
    if len(loops) != 1 or not isinstance(loops[0].target, ast.Name):
        raise AnalysisError("write_variable_font.main: loop over font_config.masters not found")
    lp = loops[0]
    m = lp.target.id
    src = [c for c in calls_in(lp) if callee_tail(c) == "addSourceDescriptor"]
    if len(src) != 1:
        raise AnalysisError("addSourceDescriptor call not found in the master loop")
    for kw in ("location", "font", "name"):
        v = kwarg(src[0], kw)
        if v is None:
            rr.bad(fi, src[0], f"addSourceDescriptor lacks {kw}=", construct=short(src[0]))
            continue
        why = from_binder(fi, src[0], v, m, "masters")
        if why is None:
            rr.ok(f"addSourceDescriptor {kw}= derives from this master")
        else:
            rr.bad(fi, src[0], f"source descriptor's {kw} {why}: a master's outlines would be placed at another master's location",
                   construct=f"addSourceDescriptor({kw}={short(v)}) {why}")
    # the UFO opened is this master's output_ufo
    op = [c for c in calls_in(lp) if callee_tail(c) == "open" and "Font" in norm(c.func)]
    if len(op) == 1 and norm(op[0].args[0]) == f"{m}.output_ufo":
        rr.ok("the UFO opened is master.output_ufo")
    else:
        rr.bad(fi, lp, "the UFO opened in the loop is not this master's output_ufo", construct="ufoLib2.Font.open(...) argument")
    sn = [st for st in ast.walk(lp) if isinstance(st, ast.Assign) and "styleName" in norm(st.targets[0])]
    if sn and norm(sn[0].value) == f"{m}.style_name":
        rr.ok("ufo.info.styleName = master.style_name")
    else:
        rr.bad(fi, lp, "style name is not taken from this master", construct="styleName assignment")
    # location keys go through axis_names[p.axisTag], values p.position, over master.position
    from ..dataflow import deref as _d18
    _c18 = cfg_of(fi)
    lv = kwarg(src[0], "location") if src else None
    lv = _d18(_c18, _c18.node_for(src[0]), lv) if lv is not None else None
    ok = False
    if isinstance(lv, ast.DictComp):
        dc = lv
        g = dc.generators[0]
        ok = norm(g.iter) == f"{m}.position" and norm(dc.key) == f"axis_names[{norm(g.target)}.axisTag]" and norm(dc.value) == f"{norm(g.target)}.position"
    if ok:
        rr.ok("location = {axis_names[p.axisTag]: p.position for p in master.position}")
    else:
        rr.bad_shape(fi, lp, "location is not built from this master's (axisTag -> position) pairs through the axis-name table", construct="location construction")
    an = [st for st in walk_body(fi) if isinstance(st, ast.Assign) and norm(st.targets[0]) == "axis_names"]
    if an and isinstance(an[0].value, ast.DictComp) and norm(an[0].value.key).endswith(".axisTag") and norm(an[0].value.value).endswith(".name"):
        rr.ok("axis_names maps axisTag -> name")
    else:
        rr.bad(fi, fi.node, "axis_names does not map axisTag to axis name", construct="axis_names")
    # axis definitions
    ad = [st for st in walk_body(fi) if isinstance(st, ast.Assign) and norm(st.targets[0]) == "axis_defs"]
    if not ad or not isinstance(ad[0].value, ast.ListComp):
        raise AnalysisError("axis_defs list comprehension not found")
    lc = ad[0].value
    a = norm(lc.generators[0].target)
    call = lc.elt
    kws = {k.arg: k.value for k in call.keywords} if isinstance(call, ast.Call) else {}
    for key, want in (("tag", f"{a}.axisTag"), ("name", f"{a}.name"), ("default", f"{a}.default")):
        if key in kws and norm(kws[key]) == want:
            rr.ok(f"axis {key} = {want}")
        else:
            rr.bad_shape(fi, call, f"axis descriptor {key} is not {want}", construct=f"axis_defs {key}={short(kws.get(key))}")
    for key, fn in (("minimum", "min"), ("maximum", "max")):
        v = kws.get(key)
        good = False
        v0 = v.args[0] if isinstance(v, ast.Call) and v.args else None
        if isinstance(v0, ast.Call) and isinstance(v0.func, ast.Name) and v0.func.id in ("tuple", "list", "sorted") and len(v0.args) == 1 and not v0.keywords:
            v0 = v0.args[0]  # min/max of the materialised sequence is min/max of its elements
        if isinstance(v, ast.Call) and norm(v.func) == fn and isinstance(v0, (ast.GeneratorExp, ast.ListComp)):
            ge = v0
            conds = [norm(i) for g in ge.generators for i in g.ifs]
            p = norm(ge.generators[-1].target)
            good = norm(ge.elt) == f"{p}.position" and any(c in (f"{p}.axisTag == {a}.axisTag", f"{a}.axisTag == {p}.axisTag") for c in conds) \
                and "font_config.masters" in norm(ge.generators[0].iter)
        if good:
            rr.ok(f"axis {key} = {fn}(positions of the same axis over all masters)")
        else:
            rr.bad_shape(fi, call, f"axis {key} is not {fn} over positions filtered on the same axis tag", construct=f"axis_defs {key}={short(v, 100)}")
    sv = find_calls(fi, "save")
    if sv and norm(sv[0].args[0]) == "font_config.output_file":
        rr.ok("variable font saved to font_config.output_file")
    else:
        rr.bad(fi, fi.node, "variable font not saved to the configured output file", construct="vf.save(...)")


@RULES.rule("C18", "R18c", "validation: bitmap and OT-SVG formats are rejected for multiple masters; a default master must exist", floor=3)
def r18c(model: Model, rr: RuleResult):
    fi = model.func("config", "FontConfig.validate")
    cfg = cfg_of(fi)
    got = set()
    for st in walk_body(fi):
        if isinstance(st, ast.Raise):
            facts = [(norm(e), pol) for e, pol in guard_facts(cfg, cfg.node_for(st))]
            if ("self.is_vf", True) in facts:
                for t, pol in facts:
                    if pol and t in ("self.has_bitmaps", "self.is_ot_svg"):
                        got.add(t)
    for need in ("self.has_bitmaps", "self.is_ot_svg"):
        if need in got:
            rr.ok(f"validate: is_vf and {need} raises")
        else:
            rr.bad(fi, fi.node, f"validate no longer rejects multi-master configs with {need}", construct=f"validate: is_vf and {need}")
    lfi = model.func("config", "load")
    rets = [st for st in walk_body(lfi) if isinstance(st, ast.Return)]
    if rets and all(isinstance(r.value, ast.Call) and callee_tail(r.value) == "validate" for r in rets):
        rr.ok("config.load returns FontConfig(...).validate()")
    else:
        rr.bad(lfi, lfi.node, "config.load does not validate the configuration it returns", construct="load: return without validate()")
    dfi = model.func("config", "FontConfig.default")
    last = dfi.body[-1]
    loops = [st for st in dfi.body if isinstance(st, ast.For)]
    good = isinstance(last, ast.Raise) and loops and any(isinstance(n, ast.Call) and norm(n.func) == "all" and "axis.default" in norm(n) and "self.axes" in norm(n) for n in ast.walk(loops[0]))
    if not good:
        # the same selection as a search expression: next(<masters at every axis default>, None), raise when it is None
        dcfg = cfg_of(dfi)
        pred = any(isinstance(n, ast.Call) and norm(n.func) == "all" and "axis.default" in norm(n) and "self.axes" in norm(n) for n in ast.walk(dfi.node))
        nx = [n for n in walk_body(dfi) if isinstance(n, ast.Call) and norm(n.func) == "next" and len(n.args) == 2 and norm(n.args[1]) == "None" and "self.masters" in norm(n.args[0])]
        raises = [st for st in walk_body(dfi) if isinstance(st, ast.Raise)]
        rets = [st for st in walk_body(dfi) if isinstance(st, ast.Return) and st.value is not None]
        if pred and len(nx) == 1 and len(raises) == 1 and len(rets) == 1 and isinstance(rets[0].value, ast.Name):
            var = rets[0].value.id
            rf = [(norm(e), pol) for e, pol in guard_facts(dcfg, dcfg.node_for(raises[0]))]
            ds = dcfg.reaching(dcfg.node_for(rets[0]), var)
            good = (rf in ([(f"{var} is None", True)], [(f"{var} is not None", False)])) and len(ds) == 1 and ds[0].value is nx[0]
    if good:
        rr.ok("default(): returns the master at every axis default, raises when there is none")
    else:
        rr.bad_shape(dfi, dfi.node, "default() does not select the master sitting at every axis default / does not raise when none does", construct="FontConfig.default")


@RULES.rule("C18", "R18d", "axis defaults and master positions reach the designspace without lossy conversion", floor=2)
def r18d(model: Model, rr: RuleResult):
    fi = model.func("config", "load")
    cfg = cfg_of(fi)
    lossy = ("int", "round", "floor", "ceil", "trunc", "math.floor", "math.ceil", "math.trunc")
    for ctor, argi, what in (("AxisPosition", 1, "master position"), ("Axis", 2, "axis default")):
        calls = [c for c in calls_in(fi, nested=True) if norm(c.func) == ctor]
        if not calls:
            raise AnalysisError(f"config.load: {ctor}(...) not found")
        for c in calls:
            a = c.args[argi] if len(c.args) > argi else None
            if a is None:
                raise AnalysisError(f"config.load: {ctor} argument {argi} missing")
            bad = [n for n in ast.walk(a) if isinstance(n, ast.Call) and norm(n.func) in lossy]
            if isinstance(a, ast.Name):
                for d in cfg.reaching(cfg.node_for(c), a.id):
                    if d.value is not None:
                        bad += [n for n in ast.walk(d.value) if isinstance(n, ast.Call) and norm(n.func) in lossy]
            if bad:
                rr.bad(fi, c, f"the {what} passes through {short(bad[0])}: a master at a fractional location (wdth 62.5 / 87.5) is silently moved to an integer one",
                       construct=f"{ctor}(... {short(a)} ...)")
            else:
                rr.ok(f"{what}: {short(a, 50)} is passed on unchanged (float)")
    ann = {f: norm(a) for f, a, _ in model.mod("config").cls("AxisPosition").fields}
    if ann.get("position") == "float":
        rr.ok("AxisPosition.position is a float")


@RULES.rule("C18", "R18e", "a master UFO is saved exactly as the static build of that master would compile it (_write only serialises)", floor=2)
def r18e(model: Model, rr: RuleResult):
    fi = model.func("write_font", "_write")
    muts = []
    for st in walk_body(fi, nested=True):
        if isinstance(st, (ast.Assign, ast.AugAssign, ast.AnnAssign)):
            tgts = st.targets if isinstance(st, ast.Assign) else [st.target]
            for t in tgts:
                for x in ([t] if not isinstance(t, (ast.Tuple, ast.List)) else t.elts):
                    if isinstance(x, (ast.Attribute, ast.Subscript)):
                        muts.append(st)
        if isinstance(st, ast.Call) and callee_tail(st) in ("round", "transform", "clear", "remove", "append", "extend", "pop", "insert", "setattr", "move", "scale", "reverse"):
            muts.append(st)
        if isinstance(st, (ast.For, ast.While)):
            muts.append(st)
    if muts:
        rr.bad(fi, muts[0], f"`{short(muts[0], 80)}` in _write changes the font object on its way to disk: only master UFOs take the .ufo branch, so a master inside the variable "
               f"font differs from the static build of the same master (e.g. Python round() is half-to-even, ufo2ft's otRound is half-up)",
               construct=f"_write: {short(muts[0], 60)}")
    else:
        rr.ok("_write performs no assignment to attributes/items, no loop and no mutating call")
    saves = [c for c in calls_in(fi) if callee_tail(c) == "save"]
    if len(saves) == 2 and all(c.args and norm(c.args[0]) == fi.params[2] for c in saves):
        rr.ok("both branches save to output_file")
    else:
        rr.bad(fi, fi.node, "_write no longer saves the ufo / ttfont to output_file in both branches", construct="_write: save calls")


@RULES.rule("C18", "R18f", "axis defaults and master positions are carried as written (no integer coercion); master UFO libs reach the variable-font compiler unaltered", floor=3)
def r18f(model: Model, rr: RuleResult):
    from ..dataflow import inline_new_helpers
    lfi = model.func("config", "load")
    n = 0
    for c in calls_in(lfi, nested=True):
        if callee_tail(c) not in ("Axis", "AxisPosition"):
            continue
        for a in list(c.args) + [k.value for k in c.keywords]:
            a2 = inline_new_helpers(a, lfi, depth=3)
            coerced = [x for x in ast.walk(a2) if isinstance(x, ast.Call) and norm(x.func) in ("int", "round", "math.floor", "math.trunc", "otRound")]
            from .. import report as _rep18
            helper = model.resolve_call(lfi, a) if isinstance(a, ast.Call) else None
            if helper is not None and not isinstance(helper.node, ast.Lambda) and _rep18.CURRENT_DRIFT.get(helper.fq, 0) is None:
                coerced += [x for x in ast.walk(helper.node) if isinstance(x, ast.Call) and norm(x.func) in ("int", "round", "math.floor", "math.trunc", "otRound")]
            n += 1
            if coerced:
                rr.bad(lfi, c, f"{callee_tail(c)}(...) receives `{short(a, 60)}`, which passes the configured number through `{short(coerced[0], 40)}`: axis values are floats (wdth 62.5, "
                       f"112.5), so a truncated master position puts the master somewhere else on the axis and evaluating the font at the real position interpolates", construct=f"config.load: {callee_tail(c)} value coerced to an integer")
            else:
                rr.ok(f"config.load: {callee_tail(c)}({short(a, 40)}) carried as written")
    if n < 3:
        raise AnalysisError(f"R18f: only {n} axis values found in config.load")
    wm = model.mod("write_variable_font")
    stores = []
    for f_ in wm.functions.values():
        if isinstance(f_.node, ast.Lambda):
            continue
        for x in ast.walk(f_.node):
            if isinstance(x, (ast.Assign, ast.AugAssign, ast.Delete)):
                tg = x.targets if isinstance(x, (ast.Assign, ast.Delete)) else [x.target]
                for t in tg:
                    if isinstance(t, ast.Subscript) and ".lib" in norm(t.value):
                        stores.append((f_, x))
    if stores:
        f_, x = stores[0]
        rr.bad(f_, x, f"write_variable_font changes a master UFO before compiling (`{short(x, 80)}`): the variable font is then built from something else than the static build of that master "
               f"(clip boxes, layers, metrics recorded by write_font for the master alone)", construct=f"{f_.qualname}: master UFO modified before compileVariableTTF")
    else:
        rr.ok("write_variable_font hands the master UFOs to the compiler as write_font wrote them")
