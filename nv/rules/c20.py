"""C20 — every configuration option reaches the font it configures."""
from __future__ import annotations

import ast
from typing import Dict, List, Optional, Set, Tuple

from ..cfg import cfg_of
from ..dataflow import param_closure, expr_closure
from ..guards import guard_facts
from ..model import (AnalysisError, FuncInfo, Model, calls_in, callee_tail, find_calls, kwarg, names_in, norm, short,
                     walk_body, walk_no_nested)
from ..ninja import Edge, bind_args, callers_of, extract
from ..report import RULES, RuleResult

PROPERTY_TO_FIELDS = {  # FontConfig properties -> fields they are computed from
    "has_bitmaps": {"color_format"}, "has_picosvgs": {"color_format"}, "has_untouchedsvgs": {"color_format"},
    "has_svgs": {"color_format"}, "is_ot_svg": {"color_format"}, "is_vf": {"masters"}, "output_format": {"output_file"},
}


def config_fields(model: Model) -> List[str]:
    return model.mod("config").cls("FontConfig").field_names()


def _is_config_name(name: str) -> bool:
    return name in ("config", "font_config", "fc", "ufo_config", "c") or name.endswith("_config")


_SUMMARY: Dict[Tuple[int, str], Set[str]] = {}


def callee_config_reads(model: Model, callee: FuncInfo, param: str, fields: Set[str], depth: int = 3) -> Set[str]:
    """FontConfig fields a function reads off its parameter `param` (transitively through resolved callees)."""
    key = (id(callee.node), param)
    if key in _SUMMARY:
        return _SUMMARY[key]
    _SUMMARY[key] = set()
    out = set()
    for n in walk_body(callee, nested=True):
        if isinstance(n, ast.Attribute) and isinstance(n.value, ast.Name) and n.value.id == param:
            if n.attr in fields:
                out.add(n.attr)
            elif n.attr in PROPERTY_TO_FIELDS:
                out |= PROPERTY_TO_FIELDS[n.attr]
            elif n.attr == "default":
                out |= {"masters", "axes"}
        if isinstance(n, ast.Call) and depth > 0:
            tgt = model.resolve_call(callee, n)
            if tgt is not None and not isinstance(tgt.node, ast.Lambda):
                b = bind_args(tgt, n)
                for pn, a in b.items():
                    if isinstance(a, ast.Name) and a.id == param:
                        out |= callee_config_reads(model, tgt, pn, fields, depth - 1)
    _SUMMARY[key] = out
    return out


def fields_read(exprs, fields: Set[str], model: Optional[Model] = None, fi: Optional[FuncInfo] = None) -> Set[str]:
    out = set()
    for e in exprs:
        for n in ast.walk(e):
            if isinstance(n, ast.Attribute) and isinstance(n.value, ast.Name) and _is_config_name(n.value.id):
                if n.attr in fields:
                    out.add(n.attr)
                elif n.attr in PROPERTY_TO_FIELDS:
                    out |= PROPERTY_TO_FIELDS[n.attr]
            if model is not None and fi is not None and isinstance(n, ast.Call):
                tgt = model.resolve_call(fi, n)
                if tgt is not None and not isinstance(tgt.node, ast.Lambda):
                    for pn, a in bind_args(tgt, n).items():
                        if isinstance(a, ast.Name) and _is_config_name(a.id):
                            out |= callee_config_reads(model, tgt, pn, fields)
    return out


def config_origins(model: Model, fi: FuncInfo, expr: Optional[ast.AST], at: ast.AST, fields: Set[str],
                   call: Optional[ast.Call] = None, caller: Optional[FuncInfo] = None, depth: int = 2) -> Set[str]:
    """FontConfig fields an expression depends on: through local reaching definitions, the tests that control which
    definition reaches (implicit flows), and - for parameters - the argument at the given call site."""
    if expr is None:
        return set()
    cfg = cfg_of(fi)
    atn = cfg.node_for(at)
    names, exprs = expr_closure(cfg, atn, expr)
    out = fields_read(exprs, fields, model, fi)
    # control dependence of every definition met, minus the conditions that also control the use site
    # (those decide whether the edge exists at all, not what it contains)
    use_ctl = set(cfg.controlling_tests(atn))
    seen = set()
    todo = [(atn, expr)]
    visited_defs = set()
    while todo:
        node, e = todo.pop()
        for nm in {n.id for n in ast.walk(e) if isinstance(n, ast.Name)}:
            for d in cfg.reaching(node, nm):
                if id(d) in visited_defs:
                    continue
                visited_defs.add(id(d))
                if d.kind in ("assign", "aug", "walrus") and d.value is not None:
                    for t, lab in cfg.controlling_tests(d.node):
                        if (t, lab) in use_ctl:
                            continue
                        tn = cfg.nodes[t]
                        test = getattr(tn.ast, "test", None)
                        if test is not None and (t, lab) not in seen:
                            seen.add((t, lab))
                            tnames, texprs = expr_closure(cfg, t, test)
                            out |= fields_read(texprs, fields, model, fi)
                    todo.append((d.node, d.value))
                elif d.kind == "param" and call is not None and caller is not None and depth > 0:
                    b = bind_args(fi, call)
                    if nm in b:
                        out |= config_origins(model, caller, b[nm], call, fields, None, None, depth - 1)
    return out


@RULES.rule("C20", "R20d", "shared intermediates are keyed by every option that parametrises them", floor=5)
def r20d(model: Model, rr: RuleResult):
    fields = set(config_fields(model))
    rules, edges = extract(model, "nanoemoji")
    per_config_markers = {"output_file"}
    checked = 0
    for edge in edges:
        fi = edge.fi
        if fi.qualname == "write_svg_font_diff_build":
            rr.remarks.append(f"{edge.site()}: QA-only (single configuration asserted when emitted)")
            continue
        sites = callers_of(model, fi) or [(None, None)]
        for caller, call in sites:
            out_or = config_origins(model, fi, edge.outputs, edge.call, fields, call, caller)
            out_txt = norm(edge.outputs)
            if out_or & per_config_markers or "output_ufo" in out_txt or "output_file" in out_txt:
                continue  # per-configuration output
            if out_txt.startswith("master_part_file_dest("):
                rr.remarks.append(f"{edge.site()}: single aggregate edge over all configurations (parametrisation reported at the part-file edges)")
                continue
            checked += 1
            parts = {
                "rule": config_origins(model, fi, edge.rule_expr, edge.call, fields, call, caller),
                "inputs": config_origins(model, fi, edge.inputs, edge.call, fields, call, caller),
                "implicit": config_origins(model, fi, edge.implicit, edge.call, fields, call, caller),
                "variables": config_origins(model, fi, edge.variables, edge.call, fields, call, caller),
            }
            where = f"{fi.qualname}"  # (keys of known findings must not depend on who calls the edge writer or what the caller names its dedupe set)
            extra_all = set()
            for part, ors in parts.items():
                extra = ors - out_or
                if extra:
                    extra_all |= extra
                    rr.bad(fi, edge.call, f"shared intermediate {short(edge.outputs, 40)} (path depends on {sorted(out_or) or 'the source only'}) has its "
                           f"{part} parametrised by {sorted(extra)}: with several configurations in one invocation the first one decides "
                           f"the content for all", construct=f"{where}: output {short(edge.outputs, 40)} {part} depends on {sorted(extra)}")
            if not extra_all:
                rr.ok(f"{where}: output {short(edge.outputs, 40)} keyed by {sorted(out_or)}; rule/inputs/variables depend on nothing else")
            # dedupe guard keyed by the output
            cfg = cfg_of(fi)
            at = cfg.node_for(edge.call)
            keys = []
            for e, pol in guard_facts(cfg, at):
                if isinstance(e, ast.Compare) and len(e.ops) == 1 and (
                        (isinstance(e.ops[0], ast.In) and not pol) or (isinstance(e.ops[0], ast.NotIn) and pol)):
                    keys.append((e.left, e.comparators[0]))
            if not keys:
                rr.bad_shape(fi, edge.call, f"shared intermediate {short(edge.outputs, 40)} has no dedupe guard: ninja rejects duplicate edges",
                       construct=f"{where}: no dedupe guard")
                continue
            for key, cont in keys:
                k_or = config_origins(model, fi, key, edge.call, fields, call, caller)
                knames, _ = expr_closure(cfg, at, key)
                onames, oexprs = expr_closure(cfg, at, edge.outputs)
                related = isinstance(key, ast.Name) and (key.id in onames) or norm(key) == norm(edge.outputs)
                if not related:
                    rr.bad(fi, edge.call, f"dedupe key {short(key)} is unrelated to the output {short(edge.outputs, 40)}", construct=f"{where}: dedupe key {short(key)}")
                elif out_or - k_or:
                    rr.bad(fi, edge.call, f"dedupe set is keyed by {short(key)} but the output path also depends on {sorted(out_or - k_or)}: a second "
                           f"configuration's output gets no edge", construct=f"{where}: dedupe key {short(key)} coarser than output (misses {sorted(out_or - k_or)})")
                else:
                    rr.ok(f"{where}: dedupe key {short(key)} determines the output path")
    if checked < 5:
        raise AnalysisError(f"only {checked} shared-intermediate edge instances analysed")


@RULES.rule("C20", "R20e", "per-configuration file names are an injective function of what load_configs asserts unique", floor=1)
def r20e(model: Model, rr: RuleResult):
    fi = model.func("nanoemoji", "_per_config_file")
    rets = [st for st in walk_body(fi) if isinstance(st, ast.Return)]
    if len(rets) != 1:
        raise AnalysisError("_per_config_file: expected one return")
    lossy = []
    for n in ast.walk(rets[0].value):
        if isinstance(n, ast.Attribute) and n.attr in ("stem", "name", "with_suffix", "with_name", "suffix") and "output_file" in norm(n.value):
            lossy.append(n.attr)
    lfi = model.func("config", "load_configs")
    uniq = None
    for n in walk_body(lfi):
        if isinstance(n, ast.SetComp):
            uniq = norm(n.elt)
    if uniq is None:
        raise AnalysisError("load_configs: uniqueness set comprehension not found")
    if lossy and not any(l in uniq for l in lossy):
        rr.bad(fi, rets[0], f"per-configuration files are named {short(rets[0].value, 80)} (drops directory and suffix) while load_configs only "
               f"asserts {uniq} unique: 'F.ttf' and 'F.otf' (or a/F.ttf and b/F.ttf) share F.toml/F.fea/F.glyphmap",
               construct=f"_per_config_file: {short(rets[0].value, 80)} vs unique {uniq}")
    else:
        rr.ok(f"_per_config_file key {short(rets[0].value, 60)} is injective on {uniq}")


@RULES.rule("C20", "R20c", "the colour-format registry is total and each entry's bindings agree with its name", floor=20)
def r20c(model: Model, rr: RuleResult):
    wf = model.mod("write_font")
    reg = wf.const("_COLOR_FORMAT_GENERATORS")
    fmts_node = model.mod("config").const("_COLOR_FORMATS")
    if not isinstance(reg, ast.Dict) or not isinstance(fmts_node, (ast.List, ast.Tuple)):
        raise AnalysisError("registry or _COLOR_FORMATS is not a literal")
    fmts = [e.value for e in fmts_node.elts]
    keys = [k.value for k in reg.keys]
    if set(keys) != set(fmts):
        rr.bad(wf, reg, f"registry keys and config._COLOR_FORMATS differ: only in registry {sorted(set(keys) - set(fmts))}, only in formats {sorted(set(fmts) - set(keys))}",
               construct="_COLOR_FORMAT_GENERATORS keys vs _COLOR_FORMATS")
    else:
        rr.ok(f"registry keys == _COLOR_FORMATS ({len(keys)})")
    for k, v in zip(reg.keys, reg.values):
        name = k.value
        if not (isinstance(v, ast.Call) and len(v.args) == 3):
            raise AnalysisError(f"registry entry {name} is not ColorGenerator(apply_ufo, apply_ttfont, ext)")
        ufo_l, tt_l, ext = v.args
        want_ext = ".otf" if name.startswith("cff") else ".ttf"
        if not isinstance(ext, ast.Constant) or ext.value != want_ext:
            rr.bad(wf, v, f"format {name}: extension {short(ext)} but outline flavour implies {want_ext}", construct=f"registry[{name}] ext {short(ext)}")
        else:
            rr.ok(f"{name}: ext {want_ext}")

        def body_call(l):
            if isinstance(l, ast.Lambda) and isinstance(l.body, ast.Call):
                return l.body
            return None

        uc, tc = body_call(ufo_l), body_call(tt_l)
        if "colr" in name:
            ver = int(name[-1])
            if uc is None or norm(uc.func) != "_colr_ufo" or not uc.args or not isinstance(uc.args[0], ast.Constant) or uc.args[0].value != ver:
                rr.bad(wf, v, f"format {name} must build COLR version {ver} through _colr_ufo({ver}, ...)", construct=f"registry[{name}] apply_ufo {short(ufo_l)}")
            else:
                rr.ok(f"{name}: _colr_ufo({ver}, *args)")
        elif name == "glyf":
            if uc is None or norm(uc.func) != "_glyf_ufo":
                rr.bad(wf, v, "format glyf must use _glyf_ufo", construct=f"registry[glyf] {short(ufo_l)}")
            else:
                rr.ok("glyf: _glyf_ufo(*args)")
        elif "svg" in name:
            pic = kwarg(tc, "picosvg") if tc is not None else None
            comp = kwarg(tc, "compressed") if tc is not None else None
            want_pic = name.startswith("picosvg")
            want_comp = name.endswith("z")
            if tc is None or norm(tc.func) != "_svg_ttfont" or pic is None or comp is None or pic.value != want_pic or comp.value != want_comp:
                rr.bad(wf, v, f"format {name} must call _svg_ttfont(picosvg={want_pic}, compressed={want_comp})", construct=f"registry[{name}] {short(tt_l)}")
            else:
                rr.ok(f"{name}: _svg_ttfont(picosvg={want_pic}, compressed={want_comp})")
        elif name in ("cbdt", "sbix"):
            if tc is None or norm(tc.func) != f"_{name}_ttfont":
                rr.bad(wf, v, f"format {name} must call _{name}_ttfont", construct=f"registry[{name}] {short(tt_l)}")
            else:
                rr.ok(f"{name}: _{name}_ttfont(*args)")
    # the helpers pass their keyword arguments through to the table builders
    sfi = wf.func("_svg_ttfont")
    c = find_calls(sfi, "make_svg_table")
    if len(c) == 1 and [norm(a) for a in c[0].args][-2:] == ["picosvg", "compressed"]:
        rr.ok("_svg_ttfont passes (picosvg, compressed) to make_svg_table")
    else:
        rr.bad(sfi, sfi.node, "_svg_ttfont does not pass picosvg/compressed through", construct="_svg_ttfont -> make_svg_table args")
    # has_* predicates partition the formats as the driver assumes
    fc = model.mod("config").cls("FontConfig")

    def fam(prop):
        m = fc.methods.get(prop)
        if m is None:
            raise AnalysisError(f"FontConfig.{prop} missing")
        toks = set()
        for cc in calls_in(m):
            if callee_tail(cc) == "_has_any":
                toks |= {a.value for a in cc.args if isinstance(a, ast.Constant)}
        return toks

    fams = {p: fam(p) for p in ("has_bitmaps", "has_picosvgs", "has_untouchedsvgs")}

    def member(fmt, toks):
        return bool(set(fmt.split("_")) & toks)

    for f in fmts:
        hit = [p for p, toks in fams.items() if member(f, toks)]
        if len(hit) != 1:
            rr.bad(model.mod("config"), fc.node, f"format {f} belongs to {hit or 'no'} input family (has_bitmaps/has_picosvgs/has_untouchedsvgs must partition the formats)",
                   construct=f"format {f}: families {hit}")
        else:
            want = "has_bitmaps" if f in ("cbdt", "sbix") else ("has_untouchedsvgs" if f.startswith("untouched") else "has_picosvgs")
            if hit[0] != want:
                rr.bad(model.mod("config"), fc.node, f"format {f} classified as {hit[0]}, expected {want}", construct=f"format {f}: {hit[0]}")
            else:
                rr.ok(f"{f}: {hit[0]}")


# documented sinks: field -> list of (module, function, text that must occur in the sink statement's target/callee)
SINKS: Dict[str, List[Tuple[str, str, str]]] = {
    "family": [("write_font", "_ufo", "info.familyName")],
    "upem": [("write_font", "_ufo", "info.unitsPerEm"), ("bitmap_tables", "_ppem", "return")],
    "ascender": [("write_font", "_ufo", "info.ascender"), ("write_font", "_ufo", "openTypeHheaAscender"), ("write_font", "_ufo", "openTypeOS2TypoAscender")],
    "descender": [("write_font", "_ufo", "info.descender"), ("write_font", "_ufo", "openTypeHheaDescender"), ("write_font", "_ufo", "openTypeOS2TypoDescender")],
    "linegap": [("write_font", "_ufo", "openTypeHheaLineGap"), ("write_font", "_ufo", "openTypeOS2TypoLineGap")],
    "version_major": [("write_font", "_ufo", "info.versionMajor")],
    "version_minor": [("write_font", "_ufo", "info.versionMinor")],
    "width": [("write_font", "_ufo", "space.width"), ("color_glyph", "_advance_width", "return"), ("write_font", "_draw_notdef", "StubGlyph")],
    "keep_glyph_names": [("write_font", "_ufo", "KEEP_GLYPH_NAMES"), ("write_font", "_generate_color_font", "formatType")],
    "clipbox_quantization": [("write_font", "_colr_ufo", "_bounds")],
    "bitmap_resolution": [("nanoemoji", "_run", "write_bitmap_builds"), ("bitmap_tables", "_make_cbdt_strike", "index_subtable.imageSize")],
    "fea_file": [("write_font", "_generate_color_font", "features.text")],
    "glyphmap_generator": [("nanoemoji", "_glyphmap_rule", "return"), ("nanoemoji", "_run", "write_glyphmap_rule")],
    "transform": [("color_glyph", "ColorGlyph.create", "ColorGlyph"), ("color_glyph", "_get_gradient_transform", "map_viewbox_to_font_space")],
    "color_format": [("write_font", "_generate_color_font", "apply_ufo"), ("write_font", "_generate_color_font", "apply_ttfont"), ("write_font", "_make_ttfont", "cff_version")],
    "pretty_print": [("svg", "_picosvg_docs", "tostring"), ("svg", "_rawsvg_docs", "tostring")],
    "reuse_tolerance": [("write_font", "_colr_ufo", "GlyphReuseCache"), ("write_font", "_glyf_ufo", "GlyphReuseCache"), ("svg", "_picosvg_docs", "GlyphReuseCache")],
    "clip_to_viewbox": [("nanoemoji", "write_picosvg_builds", "picosvg_dest"), ("nanoemoji", "write_picosvg_builds", "rule_name")],
    "use_pngquant": [("nanoemoji", "_run", "write_compressed_bitmap_builds"), ("nanoemoji", "_input_files", "dest_func")],
    "use_zopflipng": [("nanoemoji", "_run", "write_compressed_bitmap_builds"), ("nanoemoji", "_input_files", "dest_func")],
    "pngquant_flags": [("nanoemoji", "_run", "write_compressed_bitmap_builds")],
    "output_file": [("write_font", "main", "_write"), ("nanoemoji", "write_static_font_build", "build"), ("write_variable_font", "main", "save")],
    "masters": [("nanoemoji", "_run", "write_glyphmap_build"), ("write_variable_font", "main", "addSourceDescriptor")],
    "axes": [("write_variable_font", "main", "addAxisDescriptor")],
}
NO_SINK = {
    "ignore_reuse_error": "vestigial: no consumer in the package and no observable named by the property",
    "source_names": "derived from the masters' sources; informational",
}


def _stmt_depends(fi: FuncInfo, st: ast.stmt, field: str, marker: str = "") -> bool:
    cfg = cfg_of(fi)
    at = cfg.node_for(st)
    target = st
    # when the marker names a callee, the dependence must go through that call's own arguments
    mcalls = [c for c in ast.walk(st) if isinstance(c, ast.Call) and callee_tail(c) == marker]
    seen_exprs = []
    if mcalls:
        for c in mcalls:
            names, exprs = expr_closure(cfg, at, ast.Tuple(elts=[c.func] + list(c.args) + [k.value for k in c.keywords], ctx=ast.Load()))
            seen_exprs += exprs
            if field in fields_read(exprs, {field}):
                return True
        exprs = []
    else:
        names, exprs = expr_closure(cfg, at, target)
    texts = fields_read(exprs, {field})
    if field in texts:
        return True
    # a helper function that did not exist when the sinks were read (an extracted expression): the option may be read in there
    from .. import report as _report
    for e in exprs + seen_exprs + [st]:
        for c in ast.walk(e):
            if isinstance(c, ast.Call) and isinstance(c.func, ast.Name):
                key = f"{fi.module.name}.{c.func.id}"
                if key in _report.CURRENT_DRIFT and _report.CURRENT_DRIFT[key] is None and c.func.id in fi.module.functions:
                    h = fi.module.functions[c.func.id]
                    if field in fields_read(list(h.body), {field}):
                        return True
    # control dependence
    for t, lab in cfg.controlling_tests(at):
        test = getattr(cfg.nodes[t].ast, "test", None)
        if test is not None:
            _, tex = expr_closure(cfg, t, test)
            if field in fields_read(tex, {field}):
                return True
    return False


@RULES.rule("C20", "R20b", "every option has a consumer and reaches its documented sink", floor=45)
def r20b(model: Model, rr: RuleResult):
    fields = config_fields(model)
    # 1. consumer outside config.py
    reads: Dict[str, int] = {f: 0 for f in fields}
    for mod in model.modules.values():
        if mod.name == "config":
            continue
        for n in ast.walk(mod.tree):
            if isinstance(n, ast.Attribute) and n.attr in reads and isinstance(n.ctx, ast.Load):
                reads[n.attr] += 1
            if isinstance(n, ast.Attribute) and n.attr in PROPERTY_TO_FIELDS:
                for f in PROPERTY_TO_FIELDS[n.attr]:
                    reads[f] += 1
    for f in fields:
        if f in NO_SINK:
            rr.exceptions_used.append(f"{f}: {NO_SINK[f]}")
            continue
        if reads[f] == 0:
            rr.bad(model.mod("config"), model.mod("config").cls("FontConfig").node, f"option '{f}' is never read outside config.py: setting it has no effect",
                   construct=f"FontConfig.{f}: no consumer")
        else:
            rr.ok(f"{f}: {reads[f]} read(s) outside config.py")
        if f not in SINKS:
            raise AnalysisError(f"FontConfig field '{f}' has no entry in the sink table (new option: needs a reviewed sink)")
    # 2. documented sinks
    for f, sinks in SINKS.items():
        if f not in fields:
            raise AnalysisError(f"sink table names unknown field {f}")
        for modname, fn, marker in sinks:
            fi = model.func(modname, fn)
            hit = False
            cands = 0
            for st in walk_body(fi):
                if not isinstance(st, ast.stmt):
                    continue
                if isinstance(st, (ast.If, ast.For, ast.While, ast.With, ast.Try, ast.FunctionDef)):
                    continue
                txt = norm(st)
                if marker == "return":
                    if not isinstance(st, ast.Return):
                        continue
                elif marker not in txt:
                    continue
                cands += 1
                if _stmt_depends(fi, st, f, marker):
                    hit = True
                    break
            if hit:
                rr.ok(f"{f} -> {modname}.{fn} [{marker}]")
            elif cands == 0:
                rr.bad_shape(fi, fi.node, f"documented sink of option '{f}' ({marker}) no longer exists in {modname}.{fn}", construct=f"{f} -> {modname}.{fn} [{marker}] sink missing")
            else:
                # the sink is there and the def-use closure of what it receives is complete (helpers included): positive evidence
                rr.bad(fi, fi.node, f"option '{f}' does not reach its sink '{marker}' in {modname}.{fn}: the observable stays at a constant or at another option's value",
                       construct=f"{f} -/-> {modname}.{fn} [{marker}]")
    # 3. USE_TYPO_METRICS
    ufi = model.func("write_font", "_ufo")
    ok = False
    for st in walk_body(ufi):
        if isinstance(st, ast.Assign) and "openTypeOS2Selection" in norm(st.targets[0]):
            try:
                v = [e.value for e in st.value.elts]
                ok = 7 in v
            except Exception:
                ok = False
    if ok:
        rr.ok("USE_TYPO_METRICS (fsSelection bit 7) set")
    else:
        rr.bad_shape(ufi, ufi.node, "OS/2 fsSelection bit 7 (USE_TYPO_METRICS) is not set: typo metrics would not be selected", construct="_ufo: openTypeOS2Selection")


@RULES.rule("C20", "R20f", "an intermediate's path depends on every argument of its dest function on every return", floor=2)
def r20f(model: Model, rr: RuleResult):
    fi = model.func("nanoemoji", "_dest_for_src")
    cfg = cfg_of(fi)
    need = [p for p in fi.params if p in ("out_dir", "input_svg", "suffix")]
    if len(need) != 3:
        raise AnalysisError("_dest_for_src: parameters (out_dir, input_svg, suffix) not found")
    rets = [st for st in walk_body(fi) if isinstance(st, ast.Return) and st.value is not None]
    for st in rets:
        names = param_closure(cfg, cfg.node_for(st), st.value)
        miss = [p for p in need if p not in names]
        if miss:
            rr.bad(fi, st, f"_dest_for_src can return a path that does not depend on {miss} (a memo keyed more coarsely than the arguments): picosvg_dest(clipped, svg) "
                   f"shares one scope for picosvg/ and picosvg/clipped/, so the first clip setting seen for a source decides its path for every configuration",
                   construct=f"_dest_for_src: {short(st)} independent of {miss}")
        else:
            rr.ok(f"_dest_for_src: {short(st, 70)} depends on out_dir, input_svg and suffix")
    pd = model.func("nanoemoji", "picosvg_dest")
    t = " ".join(norm(x) for x in pd.body)
    if "if clipped:" in t and "out_dir / 'clipped'" in t and "_dest_for_src(picosvg_dest, out_dir, input_svg, '.svg')" in t:
        rr.ok("picosvg_dest: clipped sources go to picosvg/clipped/, unclipped to picosvg/")
    else:
        rr.bad_shape(pd, pd.node, "picosvg_dest no longer separates clipped and unclipped outputs by directory", construct="picosvg_dest body")


@RULES.rule("C20", "R20g", "same-named sources get distinct intermediate paths (the disambiguator is allocated per source, not read off part of its path)", floor=2)
def r20g(model: Model, rr: RuleResult):
    fi = model.func("nanoemoji", "_dest_for_src")
    cfg = cfg_of(fi)
    src = "input_svg"
    # the registry idiom: probe slots (k, name) until one is free or already ours, then claim it
    loops = [st for st in walk_body(fi) if isinstance(st, ast.While)]
    counter = None
    for lp in loops:
        incs = [b for b in lp.body if isinstance(b, ast.AugAssign) and isinstance(b.op, ast.Add) and isinstance(b.target, ast.Name) and norm(b.value) == "1"]
        t = norm(lp.test).replace(" ", "")
        if len(incs) == 1 and len(lp.body) == 1:
            k = incs[0].target.id
            if f".get(({k},{src}.name),{src})!={src}" in t:
                claims = [st for st in walk_body(fi) if isinstance(st, ast.Assign) and norm(st.targets[0]).replace(" ", "").replace("(", "").replace(")", "").endswith(f"[{k},{src}.name]") and norm(st.value) == src
                          and cfg.dominates(cfg.node_for(lp), cfg.node_for(st))]
                if claims:
                    counter = k
    if counter is None:
        for lp in loops:
            # probe and claim in one step: `while reg.setdefault((k, name), src) != src: k += 1`
            incs = [b for b in lp.body if isinstance(b, ast.AugAssign) and isinstance(b.op, ast.Add) and isinstance(b.target, ast.Name) and norm(b.value) == "1"]
            t = norm(lp.test).replace(" ", "")
            if len(incs) == 1 and len(lp.body) == 1 and f".setdefault(({incs[0].target.id},{src}.name),{src})!={src}" in t:
                counter = incs[0].target.id
    if counter is None:
        # `k = next(n for n in itertools.count() if reg.get((n, name), src) == src)` followed by the claim
        for st in walk_body(fi):
            if isinstance(st, ast.Assign) and len(st.targets) == 1 and isinstance(st.targets[0], ast.Name) and isinstance(st.value, ast.Call) and norm(st.value.func) == "next" \
                    and len(st.value.args) == 1 and isinstance(st.value.args[0], ast.GeneratorExp) and len(st.value.args[0].generators) == 1:
                ge = st.value.args[0]
                g0 = ge.generators[0]
                n_ = norm(g0.target)
                if norm(ge.elt) == n_ and norm(g0.iter) in ("itertools.count()", "count()", "itertools.count(0)", "count(0)") and len(g0.ifs) == 1 \
                        and norm(g0.ifs[0]).replace(" ", "").endswith(f".get(({n_},{src}.name),{src})=={src}"):
                    k = st.targets[0].id
                    claims = [c_ for c_ in walk_body(fi) if isinstance(c_, ast.Assign) and norm(c_.targets[0]).replace(" ", "").replace("(", "").replace(")", "").endswith(f"[{k},{src}.name]")
                              and norm(c_.value) == src and cfg.dominates(cfg.node_for(st), cfg.node_for(c_))]
                    if claims:
                        counter = k
    if counter is None:
        # role-based reading of the same registry, whichever loop drives it: a probe `REG.get/setdefault((k, src.name), src)` or `REG[k, src.name]` is compared
        # with the source itself, the slot (k, src.name) is claimed for the source, and k is what the sub-directory is named after
        def key_counter(e):
            if isinstance(e, ast.Tuple) and len(e.elts) == 2 and isinstance(e.elts[0], ast.Name) and norm(e.elts[1]) == f"{src}.name":
                return e.elts[0].id
            return None

        def probe_counter(e):
            if isinstance(e, ast.Call) and callee_tail(e) in ("get", "setdefault") and len(e.args) == 2 and norm(e.args[1]) == src:
                return key_counter(e.args[0]), callee_tail(e) == "setdefault"
            if isinstance(e, ast.Subscript):
                return key_counter(e.slice), False
            return None, False
        probes, claims = [], []
        for n_ in ast.walk(fi.node):
            if isinstance(n_, ast.Compare) and len(n_.ops) == 1 and isinstance(n_.ops[0], (ast.Eq, ast.NotEq)):
                for a_, b_ in ((n_.left, n_.comparators[0]), (n_.comparators[0], n_.left)):
                    if norm(b_) == src:
                        k_, claims_too = probe_counter(a_)
                        if k_:
                            probes.append(k_)
                            if claims_too:
                                claims.append(k_)
            if isinstance(n_, ast.Assign) and len(n_.targets) == 1 and isinstance(n_.targets[0], ast.Subscript) and norm(n_.value) == src:
                k_ = key_counter(n_.targets[0].slice)
                if k_:
                    claims.append(k_)
        ks = set(probes) | set(claims)
        if probes and claims and len(ks) == 1:
            k = next(iter(ks))
            # the counter takes every value 0, 1, 2, ... in turn: a while loop with += 1 from 0, or an iteration over itertools.count()
            drives = any(isinstance(n_, ast.For) and norm(n_.target) == k and norm(n_.iter) in ("itertools.count()", "count()", "itertools.count(0)", "count(0)") for n_ in ast.walk(fi.node)) or \
                (any(isinstance(n_, ast.AugAssign) and norm(n_.target) == k and isinstance(n_.op, ast.Add) and norm(n_.value) == "1" for n_ in ast.walk(fi.node))
                 and any(isinstance(n_, ast.Assign) and norm(n_.targets[0]) == k and norm(n_.value) == "0" for n_ in ast.walk(fi.node)))
            if drives:
                counter = k
    if counter:
        rr.ok(f"slot registry: `{counter}` is advanced until ({counter}, name) is free or already owned by this source, then claimed: one slot per distinct source")
    # the registry outlives the call: it is an attribute of the per-stage scope object (bound there before or while it is read), not a fresh dict
    scope = fi.params[0] if fi.params else "scope_fn"
    reg_names = set()
    for n_ in ast.walk(fi.node):
        if isinstance(n_, ast.Call) and callee_tail(n_) in ("get", "setdefault") and isinstance(n_.func, ast.Attribute) and isinstance(n_.func.value, ast.Name) \
                and n_.args and isinstance(n_.args[0], ast.Tuple):
            reg_names.add(n_.func.value.id)
        if isinstance(n_, ast.Subscript) and isinstance(n_.value, ast.Name) and isinstance(n_.slice, ast.Tuple):
            reg_names.add(n_.value.id)
    persisted = None
    for rn_ in sorted(reg_names):
        for d in cfg.all_defs(rn_):
            v = d.value
            if v is None:
                continue
            stored = any(isinstance(t_, ast.Attribute) and norm(t_.value) == scope for st_ in walk_body(fi) if isinstance(st_, ast.Assign) for t_ in st_.targets) or \
                any(isinstance(c_, ast.Call) and callee_tail(c_) in ("setattr",) and c_.args and norm(c_.args[0]) == scope for c_ in calls_in(fi)) or \
                any(isinstance(c_, ast.Call) and callee_tail(c_) == "setdefault" and f"{scope}.__dict__" in norm(c_.func) for c_ in calls_in(fi))
            if isinstance(v, ast.Call) and norm(v.func) == "getattr" and len(v.args) == 3 and norm(v.args[0]) == scope and isinstance(v.args[2], (ast.Dict, ast.Call)) and not stored:
                rr.bad(fi, d.stmt or fi.node, f"the slot registry `{rn_}` is `{short(v)}`: when the scope object has no registry yet a fresh dict is used and never stored back, so "
                       f"every call starts from an empty registry and same-named sources (every master of a variable font, same-named files of several configurations) "
                       f"all get slot 0 and share one intermediate", construct=f"_dest_for_src: registry {rn_} not persisted on {scope}")
                persisted = False
            elif isinstance(v, (ast.Dict,)) and not stored:
                rr.bad(fi, d.stmt or fi.node, f"the slot registry `{rn_}` is a fresh dict on every call", construct=f"_dest_for_src: registry {rn_} not persisted on {scope}")
                persisted = False
            elif persisted is None and (stored or (isinstance(v, ast.Attribute) and norm(v.value) == scope)):
                persisted = True
    if persisted:
        rr.ok(f"the slot registry lives on the scope object `{scope}` (it is shared by all calls for one stage)")
    ext = [st for st in walk_body(fi) if isinstance(st, ast.Assign) and len(st.targets) == 1 and norm(st.targets[0]) == "out_dir"
           and isinstance(st.value, ast.BinOp) and isinstance(st.value.op, ast.Div)]
    if not ext:
        raise AnalysisError("_dest_for_src: no `out_dir = out_dir / <disambiguator>` step found")
    for st in ext:
        e = st.value.right
        names, exprs = expr_closure(cfg, cfg.node_for(st), e)
        direct = {m.id for m in ast.walk(e) if isinstance(m, ast.Name)}
        if counter and (names - {"str", "int", "repr", "format"} == {counter} or direct - {"str", "int", "repr", "format"} == {counter}):
            rr.ok(f"`{short(st)}`: the sub-directory is the claimed slot number")
            continue
        lossy = [n for x in exprs for n in ast.walk(x) if isinstance(n, ast.Attribute) and n.attr in ("name", "stem", "suffix", "parent", "parts", "parents")
                 and src in {m.id for m in ast.walk(n) if isinstance(m, ast.Name)}]
        probes = [n for x in exprs for n in ast.walk(x) if isinstance(n, ast.Call) and callee_tail(n) in ("get", "setdefault", "count")]
        if lossy and probes:
            raise AnalysisError(f"_dest_for_src: disambiguator {short(e)} comes out of a registry probe that is not one of the enumerated idioms")
        if lossy:
            rr.bad(fi, st, f"`{short(st)}` tells same-named sources apart by {short(lossy[0])}, which different sources can share (light/svg/x.svg and regular/svg/x.svg): "
                   f"their intermediates collide, the de-duplicated edge is built once and every later master/configuration silently gets the first one's artwork",
                   construct=f"_dest_for_src: disambiguator {short(e)} is part of the path")
        else:
            raise AnalysisError(f"_dest_for_src: disambiguator {short(e)} is neither the slot counter nor derived from the source path (idiom not enumerated)")


@RULES.rule("C20", "R20h", "the outline flavour follows the output file's suffix (config.output_format), not the colour format", floor=2)
def r20h(model: Model, rr: RuleResult):
    fi = model.func("write_font", "_make_ttfont")
    cfg = cfg_of(fi)
    want = {"compileTTF": ".ttf", "compileOTF": ".otf"}
    for name, ext in want.items():
        cs = [c for c in calls_in(fi) if callee_tail(c) == name]
        if len(cs) != 1:
            raise AnalysisError(f"_make_ttfont: expected one ufo2ft.{name} call")
        at = cfg.node_for(cs[0])
        ok = False
        facts = guard_facts(cfg, at)
        for e, pol in facts:
            if isinstance(e, ast.Compare) and len(e.ops) == 1 and isinstance(e.ops[0], ast.NotEq) and not pol:
                e, pol = ast.Compare(left=e.left, ops=[ast.Eq()], comparators=e.comparators), True  # `a != b` false is `a == b` true
            if not pol or not isinstance(e, ast.Compare) or len(e.ops) != 1 or not isinstance(e.ops[0], ast.Eq):
                continue
            sides = [e.left, e.comparators[0]]
            consts = [x for x in sides if isinstance(x, ast.Constant)]
            others = [x for x in sides if not isinstance(x, ast.Constant)]
            if len(consts) == 1 and consts[0].value == ext and len(others) == 1:
                _, exprs = expr_closure(cfg, at, others[0])
                t = " ".join(norm(x) for x in exprs)
                if "config.output_format" in t or ("config.output_file" in t and ("suffix" in t or "splitext" in t)):
                    if "color_format" not in t and "_COLOR_FORMAT_GENERATORS" not in t:
                        ok = True
        if ok:
            rr.ok(f"ufo2ft.{name} runs exactly when config.output_format == {ext!r}")
        else:
            rr.bad(fi, cs[0], f"ufo2ft.{name} is not selected by `config.output_format == {ext!r}` ({[short(e, 50) for e, _ in facts]}): with `--color_format glyf_colr_1 "
                   f"--output_file Foo.otf` (or cff_colr_0 with a .ttf name) the file gets the other outline flavour than its name and the option promise",
                   construct=f"_make_ttfont: {name} guard")
    # the CFF flavour of an .otf follows the colour format: version 2 exactly for cff2_*, version 1 for everything else
    otf = [c for c in calls_in(fi) if callee_tail(c) == "compileOTF"]
    cv = kwarg(otf[0], "cffVersion") if otf else None
    if cv is not None:
        from ..dataflow import alternatives
        from ..guards import canon_fact
        cases = []
        if isinstance(cv, ast.Name):
            for val, conds in alternatives(cfg, cfg.node_for(otf[0]), cv.id, fi):
                cases.append((val, [c_ for c_ in conds if "color_format" in c_[0]]))
        elif isinstance(cv, ast.IfExp):
            cases = [(norm(cv.body), [canon_fact(cv.test, True)]), (norm(cv.orelse), [canon_fact(cv.test, False)])]
        T2 = ("config.color_format.startswith('cff2_')", True)
        ok_cff = bool(cases) and all((v == "2" and T2 in c_) or (v == "1" and (T2[0], False) in c_) or (v == "1" and not c_) for v, c_ in cases) and any(v == "2" for v, _ in cases)
        wrong = [(v, c_) for v, c_ in cases if v in ("1", "2") and c_ and any("startswith" in t_ and t_ != T2[0] for t_, _ in c_)]
        if ok_cff:
            rr.ok("cffVersion is 2 exactly for cff2_* colour formats, 1 otherwise")
        elif wrong:
            rr.bad(fi, otf[0], f"cffVersion is chosen by {wrong[0][1]} (value {wrong[0][0]}): a colour format that is neither cff_ nor cff2_ (glyf_colr_1, picosvg, ... with an .otf "
                   f"output name) gets the other CFF flavour than before", construct="_make_ttfont: cffVersion selection")
        else:
            rr.bad_shape(fi, otf[0], "cffVersion is not selected by color_format.startswith('cff2_')", construct="_make_ttfont: cffVersion selection")
    ofmt = model.mod("config").cls("FontConfig").node
    prop = [n for n in ofmt.body if isinstance(n, ast.FunctionDef) and n.name == "output_format"]
    if prop and "Path(self.output_file).suffix" in " ".join(norm(x) for x in prop[0].body):
        rr.ok("FontConfig.output_format is the suffix of output_file")
    else:
        rr.bad(model.mod("config"), ofmt, "FontConfig.output_format is no longer the suffix of output_file", construct="FontConfig.output_format")


@RULES.rule("C20", "R20i", "every per-source intermediate is named by _dest_for_src in its own scope; the generated fea / glyphmap / config / parts files are edge variables", floor=5)
def r20i(model: Model, rr: RuleResult):
    mod = model.mod("nanoemoji")
    dest_fns = ["picosvg_dest", "bitmap_dest", "pngquant_dest", "zopflipng_dest"]
    for fn in dest_fns:
        fi = mod.func(fn)
        cfg = cfg_of(fi)
        rets = [st for st in walk_body(fi) if isinstance(st, ast.Return) and st.value is not None]
        for st in rets:
            v = st.value
            if isinstance(v, ast.Call) and callee_tail(v) == "_dest_for_src" and v.args and norm(v.args[0]) == fn:
                rr.ok(f"{fn} -> _dest_for_src({fn}, ...): same-named sources are told apart inside this stage's own registry")
                continue
            _, exprs = expr_closure(cfg, cfg.node_for(st), v)
            helpers = [c for e in exprs for c in ast.walk(e) if isinstance(c, ast.Call) and isinstance(c.func, ast.Name) and c.func.id in mod.functions and c.func.id not in ("rel_build",)]
            lossy = []
            for e in exprs + [b for h in helpers for b in mod.functions[h.func.id].body]:
                for n in ast.walk(e):
                    if isinstance(n, ast.Attribute) and n.attr in ("name", "stem") and any(isinstance(c, ast.Call) and callee_tail(c).endswith("_dest") for c in ast.walk(n)):
                        lossy.append(n)
            if lossy:
                rr.bad(fi, st, f"{fn} names its output after {short(lossy[0])}: `.name` drops the 1/, 2/ sub-directory that keeps same-named sources of different "
                       f"directories (or configurations) apart, so their compressed bitmaps collide and the first configuration's artwork is used for all",
                       construct=f"{fn}: dest via {short(lossy[0])}")
            else:
                rr.bad_shape(fi, st, f"{fn} does not return _dest_for_src({fn}, ...)", construct=f"{fn}: {short(st, 60)}")
    vf = mod.func("_variables_for_font_build")
    from ..paintmodel import returned_dict
    d = returned_dict(vf)
    if d is None:
        raise AnalysisError("_variables_for_font_build: returned dict not found")
    keys = {k.value for k in d.keys if isinstance(k, ast.Constant)}
    need = {"config_file", "fea_file", "glyphmap_file", "part_file"}
    if need <= keys:
        rr.ok("font edges receive config, fea, glyph map and parts file as variables (and thereby as implicit inputs)")
    else:
        rr.bad_shape(vf, vf.node, f"font edges no longer receive {sorted(need - keys)} as a variable: the file stops being a declared input of the font, so ninja may run the font "
                     f"step before the step that writes it, or keep a font built from an older one", construct=f"_variables_for_font_build: missing {sorted(need - keys)}")


@RULES.rule("C20", "R20j", "the worker uses the glyph map's rows as the generator wrote them (names included)", floor=1)
def r20j(model: Model, rr: RuleResult):
    fi = model.func("write_font", "main")
    cfg = cfg_of(fi)
    ins = [c for c in calls_in(fi) if callee_tail(c) == "_inputs"]
    if len(ins) != 1 or len(ins[0].args) < 2:
        raise AnalysisError("write_font.main: _inputs(font_config, <glyph mappings>) not found")
    _, exprs = expr_closure(cfg, cfg.node_for(ins[0]), ins[0].args[1])
    parse = [c for e in exprs for c in ast.walk(e) if isinstance(c, ast.Call) and callee_tail(c) in ("parse_csv", "load_from")]
    rewrites = [c for e in exprs for c in ast.walk(e) if isinstance(c, ast.Call) and callee_tail(c) in ("replace", "_replace", "GlyphMapping") and any(k.arg in ("glyph_name", "codepoints", "svg_file", "bitmap_file") for k in c.keywords)]
    if rewrites:
        rr.bad(fi, ins[0], f"write_font.main rewrites glyph-map rows before use ({short(rewrites[0], 70)}): what a custom --glyphmap_generator decided (glyph names, codepoints) is "
               f"silently replaced", construct=f"write_font.main: glyph map rows rewritten by {short(rewrites[0].func)}")
    elif parse:
        rr.ok("write_font.main hands the parsed glyph map to _inputs as it is")
    else:
        rr.bad_shape(fi, ins[0], "the glyph mappings given to _inputs do not come from glyphmap.parse_csv", construct="write_font.main: glyph map source")


@RULES.rule("C20", "R20k", "a parameter added to a function is used by it (an option threaded through call chains is not dropped half way)", floor=1)
def r20k(model: Model, rr: RuleResult):
    """Threading a new option through several functions is the usual way a feature reaches the code that acts on it; the usual slip is one link that accepts
    the parameter and never reads it, so the default applies there whatever the caller asked for.  For every function of the reference tree whose parameter list
    grew, each added parameter must be read in the body (passed on, tested or stored)."""
    import json
    from ..normalize import REF_FILE
    ref = json.loads(REF_FILE.read_text())
    n = grown = 0
    for mname, mod in sorted(model.modules.items()):
        for fi in mod.functions.values():
            if isinstance(fi.node, ast.Lambda):
                continue
            entry = ref.get(f"{mname}:{fi.qualname}")
            if not entry:
                continue
            n += 1
            old = {p_.lstrip("*") for p_ in entry.get("params", [])}
            cur = [p_ for p_ in fi.params]
            added = [p_ for p_ in cur if p_ not in old]
            if not added or len(cur) <= len(old):
                continue  # renamed parameters are matched by the normal form; only a longer list counts
            grown += 1
            loads = {x.id for x in ast.walk(fi.node) if isinstance(x, ast.Name) and isinstance(x.ctx, ast.Load)}
            abstract = all(isinstance(st, (ast.Pass, ast.Raise)) or (isinstance(st, ast.Expr) and isinstance(st.value, ast.Constant)) for st in fi.body)
            for p_ in added:
                if p_ in loads or abstract or p_.startswith("_"):
                    rr.ok(f"{mname}.{fi.qualname}: new parameter {p_} is read")
                else:
                    rr.bad(fi, fi.node, f"{mname}.{fi.qualname} gained the parameter `{p_}` but never reads it: callers that pass it get the behaviour of the default "
                           f"(the option is dropped at this link of the call chain)", construct=f"{fi.qualname}: added parameter {p_} unused")
    if n < 300:
        raise AnalysisError(f"R20k: only {n} reference functions matched")
    rr.ok(f"{n} functions compared with their reference signature; {grown} with a longer parameter list")
