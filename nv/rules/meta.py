"""Per-property metadata: what is decided and what is declined (goes into every evidence file)."""

_ASSUME = [
    "only src/nanoemoji/*.py is analysed; picosvg, fontTools, ufo2ft, ninja and the external tools are trusted through "
    "declared signatures",
    "no code under /repo is imported or executed by the check",
]

PROPERTY_META = {
    "C10": {
        "explanation": "Decides structural clauses of C10 by static schema extraction (ast): the five configuration "
                       "relations (FontConfig fields, flag definitions, keys written by config.write, names popped by "
                       "config.load, FontConfig(...) keywords) coincide and are wired field-for-field; flag defaults are the "
                       "None sentinel; _pop_flag evaluates flag > file > default on all four set/unset combinations; csv "
                       "writer/reader dialect keywords agree; glyphmap column order and radix agree; parts JSON keys written = "
                       "keys read; config.write drops nothing but None, writes axes/masters in the order load keeps, and targets the file the edges consume on every run; every returned glyph name passes the first-character test. Also: codepoints are read from file names by the one documented pattern; the non-letter prefix is decided after the long-name hash. Does NOT decide value-level round trips (float formatting of Affine2D.tostring, shell "
                       "splitting of response files, the file-name regex).",
        "declined": "float round-trip of transform strings; ninja response-file quoting; from_filename regex on arbitrary names",
        "assumptions": _ASSUME,
    },
}


def _stub(pid, text, declined=""):
    PROPERTY_META.setdefault(pid, {"explanation": text, "declined": declined, "assumptions": _ASSUME})


_stub("C20", "Decides structural clauses of C20: configuration schema agreement (R20a = R10a), every option has a consumer "
             "reaching its documented sink, the colour-format registry is total, shared intermediates are keyed by everything "
             "that parametrises them, per-configuration file namespace is injective, an intermediate's path depends on every argument of its dest function, the resolved configuration is re-written on every invocation, same-named sources get a per-source slot number, the outline flavour follows the output suffix. Also: a parameter added to a function is read by it (an option threaded through a call chain is not dropped half way, R20k). Does NOT decide that ufo2ft writes the "
             "info fields into the named binary tables.",
      "binary table contents (ufo2ft/fontTools)")

_stub("C11", "Decides structural clauses of C11: the repository's (type, format) -> (coverage, parallel array) rule table equals a "
             "specification table derived from fontTools otData.py (every coverage-bearing record of GDEF/GPOS/GSUB/MATH has a "
             "rule, every coverage is paired with its own coverage-indexed array, attribute paths resolve in otData, glyph-sorted "
             "inner lists have a ReorderList); the traversal visits all four containers and every subtable after setGlyphOrder; "
             "the font is fully loaded before the order changes in the callee and at both callers; argument validation raises "
             "before mutation; no loop of the reordering pass can stop early. Also: load_fully re-opens lazily loaded fonts with lazy=False; the parallel array is permuted by the same (not the inverse) permutation in every recognised idiom. Does NOT decide the permutation arithmetic of _sort_by_gid or tables outside the four containers.",
      "_sort_by_gid arithmetic (unit-tested); cmap/hmtx/glyf/COLR which fontTools keys by glyph name")

_stub("C16", "Decides structural clauses of C16: in paint.transformed every specialised paint is dominated by the range predicate of "
             "its otData field type on the very values it stores (int16 / F2Dot14), is built from the right affine components under "
             "the conditions that make it denote the affine (no skew, no translation, s != 1 before dividing, (1==s)==(0==d)), and "
             "everything else falls through to PaintTransform; gradient check_overflows (constant-folded over its loops) bounds every "
             "coordinate by its otData type range and apply_transform runs it on the gradient it returns unless the SVG back end "
             "opts out; gettransform/to_ufo_paint/otData field sets agree per transform class; fixed.py range constants and "
             "predicates equal the OpenType ranges. Does NOT decide numeric equality of the emitted composition with the affine, "
             "nor behaviour at almost_equal boundaries.",
      "numeric equality of encodings; almost_equal boundary behaviour; _decompose_uniform_transform arithmetic")

_stub("C09", "Decides structural clauses of C09 on a static model of the ninja graph the driver writes (rules, edge sites, variables, "
             "inputs): every $variable a rule expands is bound by every edge using it and no bound variable is unused; every "
             "path-valued variable is a declared input; no rule sets restat/generator; the glyphmap edge lists the per-source "
             "intermediates of each format family; resolved configs and build.ninja are rewritten unconditionally before ninja runs; "
             "ninja runs with check=True, pngquant returns its child's status, no except handler swallows an error outside a reviewed "
             "table, no step exits 0 explicitly; every font-writing main writes the font as its last action; no control flow depends on what files an earlier invocation left behind (exists/stat/mtime/size probes), no step back-dates its output (copy2/copystat/utime), ninja's bookkeeping tools are not run. Does NOT decide "
             "convergence over histories, ninja's own dirtiness logic, or behaviour at kill points.",
      "convergence over edit/crash histories; ninja log/mtime semantics; partial files left by killed steps")

_stub("C17", "Decides structural clauses of C17: a uniqueness check keyed on the glyph name and one keyed on the codepoint sequence "
             "(seen-set / len(set) / Counter idioms, keyed on that attribute alone) raises on the path write_font.main -> ColorGlyph.create; each raise site the "
             "property relies on (bad colour, unknown spreadMethod, palette conflict, parse failure, missing file, oversize bitmap, "
             "master mismatch in either direction, missing viewBox) exists, is reachable, is not guarded by a constant and is not caught without re-raise "
             "on any resolved call path; the colour parser converts whole tokens (no partial-match extraction); failures propagate to the exit status (R09d) and font files are written last (R09e). Does "
             "NOT decide that picosvg rejects every unsupported construct, nor what ninja does with the exit status.",
      "picosvg's own input validation; exit-status handling inside ninja")

_stub("C12", "Decides structural clauses of C12 on maximum_color's ninja graph and workers: rule variables are bound and path "
             "variables declared; stages are threaded (keep_glyph_names first, each stage consumes and re-binds the previous output, "
             "the new table is glued onto the font handed to the stage, copy vs strip_glyph_names selected by keep_glyph_names, "
             "--bitmaps/--colr_version reach their edges); gid-named files agree between the driver's declared outputs, both extractors "
             "and the glyphmap's gid lookup in the source font's order; the mergeable config copies upem/ascender/descender from the "
             "same head/OS/2 fields its siblings read, width 0, names kept; donation copies referenced glyphs, fixes glyph order once, "
             "reorders before grafting SVG, rejects missing names for CBDT. Also: grafting SVG keeps every donor gid (filler glyphs gid by gid); CBLC strike templates are deep-copied per run. Also: SVGs generated from COLR are not rounded (picosvg rounds opacity too). Does NOT decide table-by-table equality of the output font "
             "or rendering agreement between colour tables.",
      "binary equality of retained tables; rendering agreement between COLR/SVG/CBDT")

_stub("C18", "Decides structural clauses of C18: each master's UFO edge is built from a config restricted to that master, that "
             "master's glyphmap and config file, with sources redirected to the build's picosvgs, one edge per master, and the "
             "variable-font edge depends on every UFO; in the designspace assembly the UFO, style name, source name and location of a "
             "source all derive from the same loop binder, location keys go through axisTag -> name, axis minimum/maximum aggregate "
             "positions filtered on the same tag, default comes from the axis; positions and defaults are not truncated or rounded on loading; _write only serialises (a master UFO is what the static build would compile); same-named sources of different masters get distinct intermediates; validation rejects bitmap / OT-SVG multi-master configs "
             "and a missing default master. Also: axis defaults and master positions are not coerced to integers; master UFO libs are not edited before the variable font is compiled. Does NOT decide interpolation, gvar/HVAR/VarStore content or variable clip boxes (ufo2ft).",
      "interpolation and all variation data (ufo2ft/fontTools.varLib)")

_stub("C08", "Decides structural clauses of C08 with an order-taint analysis over every module on the font path: set-like values and "
             "directory listings may be consumed only by order-insensitive consumers (sorted, set algebra, membership, len/min/max/"
             "any/all, util.only) or by loops whose bodies commute; every other consumption is a finding unless it is in a reviewed "
             "exception table keyed by function and construct. Also: no clock/random/pid/id()/hash()/environment reads and no time-stamped containers (gzip without mtime) (with a "
             "positive fixture), no module-level memo tables keyed on part of the input, source paths and build locations flow only to open/parse, sort keys and messages, the first-seen "
             "disambiguation of intermediate names is fed from the sorted source list, workers keep the driver's source order (no re-sorting of build-dir-relative spellings), and the hash-ordered parts file is never read "
             "by the font writer. Also: every compute-and-store memo table is keyed on all inputs of the stored value that can change while the table lives (R08j); pool completion order counts as unordered. Does NOT decide ninja's scheduler, fontTools' SOURCE_DATE_EPOCH handling or external tools.",
      "ninja scheduling; fontTools timestamps; picosvg/resvg/pngquant determinism; sort ties under non-injective keys")

_stub("C01", "Decides structural clauses of C01: (a) every composition, inverse and application of an affine in the SVG -> Paint -> "
             "COLR pipeline is between compatible coordinate spaces (units-of-measure typing over viewBox / em / font / bbox spaces "
             "with target/donor owners, all paths enumerated, literal affines cross-checked by the sign of their determinant), incl. "
             "the reuse branch where the gradient is counter-transformed by the inverse reuse transform; (b) scalar dimensions of the "
             "scale and advance rule; (c) z-order polarity: a two-point domain {document, reversed} shows PaintColrLayers and the "
             "returned tuple are in document order and consumers keep it; (d) to_ufo_paint keys equal otData PaintFormatN fields, "
             "every dataclass field is serialised, children()/colors() cover every Paint-typed field; (e) group opacity and "
             "stop x shape opacity encoding; (f) at most one transform wrapper above a PaintGlyph. Does NOT decide numerical equality "
             "of the rendered picture, picosvg's normal form, ufo2ft compilation or rounding bounds.",
      "rendered-picture equality; _decompose_uniform_transform arithmetic; ufo2ft/fontTools compilation; rounding")

_stub("C02", "Decides structural clauses of C02: coordinate-space typing of svg.py (the glyph <g transform> is viewBox -> OT-SVG; the "
             "inverse reuse transform is conjugated font <-> viewBox with target/donor owners; gradients attached to a <use> end in "
             "the donor's frame and to a <path> in the target's; a pre-applied gradient transform is not applied twice); the user "
             "transform is bracketed by the y flip in map_viewbox_to_otsvg_space; <use>/id pairing on every path; attribute migration "
             "only when all uses agree; glyph ids read after the reshuffle come from the renumbered mapping and one group list drives "
             "numbering and emission over all groups; the untouched path deletes only width/height/viewBox/enable-background; picosvg/compressed wiring. Also: each radial-gradient attribute is written under the condition of its own field only; a layer is drawn into its nearest enclosing group. Also: rounding a gradient keeps its stop list one to one; the gradient writers emit the gradient they are given. Does NOT decide a renderer's interpretation of <use x y transform>, "
             "3-digit rounding or the Safari nudge's visual effect.",
      "renderer semantics of <use>; rounding to 3 digits; involutory-matrix nudge")

_stub("C06", "Decides structural clauses of C06: coordinate-space typing of both reuse branches (COLR reuse wrapper with the gradient "
             "counter-transformed by the inverse reuse transform; OT-SVG <use> with the conjugated inverse); try_reuse returns a "
             "transform only under fixed_safe, the COLR branch returns the wrapper only when the combined gradient transform fits, the "
             "OverflowError fall-back wraps the untouched gradient in the same transform, abandoned reuse reaches the un-reused emission; "
             "every comparison of the reuse tolerance with the 'disabled' sentinel covers the whole negative half-line; look-up and "
             "insertion use the same key and tolerance. Also: the gradient of a reused glyph is counter-transformed by (its own wrapper, then the inverse reuse transform) on every path; the reuse transform comes from affine_between only. Does NOT decide the metamorphic equality itself or picosvg's affine_between.",
      "reuse-on == reuse-off equality of rendered glyphs; accuracy of picosvg.affine_between / normalize")
_stub("C19", "Decides structural clauses of C19: the path looked up for reuse is the path inserted, every new outline is registered, "
             "look-up and insertion normalise with one tolerance derived from the configuration, one font-wide cache; the reuse wrapper "
             "/ <use> is produced whenever a donor exists unless the transform overflows (a found donor is never discarded, a transformed COLRv0 copy is always a component of the shared outline); try_reuse gives up for exactly four reasons "
             "(disabled, no donor, no affine, overflow); reuse is disabled only by a negative tolerance. Also: every OT-SVG reuse hit joins the two glyphs' groups at once; per-glyph state is not carried between loops. Does NOT decide that picosvg's "
             "normalisation identifies all isometric copies.",
      "completeness of picosvg's congruence detection")

_stub("C13", "Decides structural clauses of C13: coordinate-space typing of colr_to_svg.py (outlines through font -> viewBox; the running "
             "paint transform composes inner-first; setting an element's transform resets the running transform; gradient coordinates "
             "end in the element's user space, radial ones through the circle-preserving frame plus gradientTransform); the dispatch "
             "over ot_paint.Format is exhaustive (every PaintFormat member is handled, routed to a class with its own gettransform, or "
             "raises) and unsupported composites warn; Paint.from_ot's reflection contract holds against otData for every non-variable "
             "transform format incl. the (xx,yx,xy,yy,dx,dy) converter order; colour mapping (0xFFFF -> currentColor, palette index only "
             "for multi-palette fonts, alpha product) and COLRv0 layer order; re-framing a gradient maps every geometric field. Does NOT decide picture equality or curve conversion.",
      "rendered-picture equality; SVGPathPen quadratic/cubic conversion; angle conventions of rotate/skew in picosvg")

_stub("C03", "Decides structural clauses of C03: every PaintGlyph context (and only those) yields exactly one COLRv0 layer / glyf "
             "component; the component or transformed composite carries the transform and glyph of the same traversal context and a "
             "composite is created exactly when that transform is not the identity; the v0 palette keeps alpha and layers look their "
             "colour up unmodified; base-glyph extents are drawn for v0 with each glyph's own bounds; the single-component flattening "
             "requires an unshared component and carries the codepoint over; ufo2ft is not asked to remove overlaps (open extents contour). Does NOT decide picture equality or quantisation.",
      "rendered-picture equality; outline quantisation")
_stub("C04", "Decides structural clauses of C04: all sites naming glyphs from codepoints call glyph.glyph_name; the length predicates "
             "at the cmap / ligature / blank-glyph sites, evaluated over sequence lengths, put length 1 in cmap and every length >= 2 "
             "in ligatures (disjoint, covering); the .notdef/.space skeleton and gid bookkeeping; the advance rule; the regular-language "
             "abstraction of glyph_name (token = ASCII letter | hex, '_' separator, 'g_' prefix) is tested for injectivity by an NFA "
             "product; duplicate names/codepoints are rejected. Does NOT decide that feaLib's GSUB resolves overlapping sequences or "
             "the behaviour of custom glyph-map generators.",
      "GSUB lookup resolution by feaLib; custom glyphmap generators; sha1 collisions")
_stub("C05", "Decides structural clauses of C05: the clip box is the union over every PaintGlyph of every root, each measured with "
             "ControlBoundsPen through TransformPen with the transform of its own context (identity shortcut only under "
             "almost_equals), minima rounded down and maxima up to the quantisation step after otRound, default step 2% of upem, one "
             "entry per glyph keyed by its own name, none for empty glyphs, COLRv1 only. Does NOT decide that control bounds contain "
             "the compiled outline after cu2qu nor numeric containment.",
      "containment of the compiled (quantised, cu2qu-converted) outlines; rounding slack")
_stub("C07", "Decides the few structural necessary conditions of C07: post format 3 unless names are kept (set after apply_ttfont), "
             "names forced and asserted for the picosvg reshuffle; fonts fully loaded before reordering; SVG document ranges from the "
             "renumbered ids, empty documents skipped, gradient ids unique and not shared across documents; cross-glyph reuse through "
             "<defs>; CBDT runs sorted by gid, split at gaps, consecutiveness asserted, names/locations from one sequence, consecutive "
             "offsets. Does NOT decide anything about the binary: that it loads, decompiles, re-saves, or that cross-references are in "
             "range (fontTools/ufo2ft at run time).",
      "everything about the compiled binary (COLR/CPAL ranges, cmap/hmtx/maxp agreement, sanitiser rules)")
_stub("C14", "Decides structural clauses of C14: dimension typing (px, fu, px/em) of every arithmetic expression in the bitmap "
             "metrics; the name, metrics and bytes of each sbix/CBDT record derive from the same glyph and the bytes are the PNG "
             "unchanged; oversize bitmaps are rejected before strikes are built and the 8-bit assertions dominate the metrics' return; "
             "ppem comes from the single bitmap height of the strike; the pixel advance is max(configured width, bitmap width) on every path like the hmtx advance. Also: no value bound for an 8-bit field is clamped to the field's limit. Does NOT decide the pixel-exact placement bounds (one/two px) or "
             "fontTools' packing.",
      "the +-1/+-2 pixel placement bounds; fontTools' CBDT/sbix packing")
_stub("C15", "Decides structural clauses of C15: the normalisation applied when the palette is built equals the one applied at every "
             "look-up (v0: unmodified, v1: opaque with alpha carried by the paint/stop; opaque() changes alpha only), the same list is written to CPAL; the "
             "foreground colour is excluded by the predicate index_from short-circuits on (0xFFFF); conflicting explicit indices raise, "
             "the palette is never empty, the slot count and fill discipline place indexed colours at their own index and assert every "
             "colour was placed; iteration is over a sorted sequence; the alpha handed to Color.fromstring reaches every returned colour and colours rebuilt from components keep their palette index. Does NOT decide the slot-filling arithmetic for all colour sets "
             "(a run-time fact).",
      "exhaustive correctness of slot assignment over all colour multisets")
