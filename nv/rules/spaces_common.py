"""Shared driver for the E4 space-typing rules (R01a, R02a/b, R06a, R13a, R16d)."""
from __future__ import annotations

from typing import Dict, List, Tuple

from ..model import AnalysisError, Model, short
from ..report import RuleResult
from ..space_sigs import SIGS, TYPED_REGION
from ..spaces import Interp, check_function

_CACHE: Dict[int, Dict[Tuple[str, str], Interp]] = {}


def run_region(model: Model) -> Dict[Tuple[str, str], Interp]:
    key = id(model)
    if key not in _CACHE:
        out = {}
        for mod, fn in TYPED_REGION:
            out[(mod, fn)] = check_function(model, SIGS, mod, fn)
        _CACHE.clear()
        _CACHE[key] = out
    return _CACHE[key]


def report(model: Model, rr: RuleResult, members: List[Tuple[str, str]], why: str):
    res = run_region(model)
    for m in members:
        it = res.get(m)
        if it is None:
            raise AnalysisError(f"{m} is not in the typed region")
        for c in it.checked:
            rr.ok(f"{m[0]}.{m[1]}: {c}")
        for e in it.errors:
            rr.bad_shape(it.fi, e.node, f"coordinate-space error: {e.message}. {why}", construct=f"{short(e.node, 110)} :: {e.message}")
        rr.remarks.append(f"{m[0]}.{m[1]}: {it.paths} path(s), {len(it.checked)} checked, {it.unchecked} involving unknown (T?) operands")
