"""Self-test of the rules: seeded mutants must be reported (naming the rule), benign variants must stay silent.

Mutants are textual edits applied to a scratch copy of /repo/src/nanoemoji made under $TMPDIR (never to /repo
or /verif) and removed immediately. A mutant whose anchor text no longer exists in the tree under test is
skipped and counted (the tree has drifted from the pinned one), never silently passed as 'killed'.
A self-test failure is an ANALYSIS-ERROR (exit 2): the checker is broken, not the repository.
"""
from __future__ import annotations

import importlib
import json
import os
import shutil
import sys
import tempfile
import time
from concurrent.futures import ProcessPoolExecutor
from pathlib import Path
from typing import Dict, List, Optional, Tuple

VERIF = Path(__file__).resolve().parent.parent


def load_mutants(prop: Optional[str] = None) -> List[dict]:
    out = []
    d = VERIF / "fixtures"
    sys.path.insert(0, str(d))
    try:
        for p in sorted(d.glob("mutants_*.py")):
            mod = importlib.import_module(p.stem)
            for m in getattr(mod, "MUTANTS", []):
                if prop is None or prop in m["props"]:
                    out.append(m)
    finally:
        sys.path.remove(str(d))
    # independently seeded changes kept under seeded/<id>/ (patch.diff + meta.json): each must stay reported under its own property
    sd = VERIF / "seeded"
    if sd.is_dir():
        for mp in sorted(sd.glob("*/meta.json")):
            try:
                meta = json.loads(mp.read_text())
            except Exception:
                continue
            own = meta.get("property")
            rules = (meta.get("detected_by", {}).get(own, {}) or {}).get("rules", [])
            if meta.get("status") != "confirmed" or not rules or not (mp.parent / "patch.diff").exists():
                continue
            if prop is None or prop == own:
                out.append(dict(id=f"seeded-{meta['seed_id']}", props=[own], expect=list(rules), patch=str(mp.parent / "patch.diff"), edits=[]))
    # behaviour-preserving refactorings kept under benign/<id>/ : no rule of any property may report a VIOLATION on them (ending undecided, exit 2, is allowed
    # and counted); every one is run under the property being tested
    bd = VERIF / "benign"
    if bd.is_dir():
        for mp in sorted(bd.glob("*/meta.json")):
            try:
                meta = json.loads(mp.read_text())
            except Exception:
                continue
            if meta.get("status") != "confirmed" or not (mp.parent / "patch.diff").exists():
                continue
            props = [prop] if prop else [f"C{i:02d}" for i in range(1, 21)]
            if prop and meta.get("property") != prop and os.environ.get("NV_ALL_BENIGN") != "1":
                # under another property a refactoring is replayed only when it touches a file that property is anchored in (properties.jsonl)
                touched = {l[6:].strip() for l in (mp.parent / "patch.diff").read_text().splitlines() if l.startswith("+++ b/")}
                if not (touched & _anchor_files(prop)):
                    continue
            out.append(dict(id=f"benign-{meta['benign_id']}", props=props, expect="no-violation", patch=str(mp.parent / "patch.diff"), edits=[]))
    return out


_ANCHOR_FILES: Dict[str, set] = {}


def _anchor_files(prop: str) -> set:
    if not _ANCHOR_FILES:
        try:
            for line in (VERIF / "properties.jsonl").read_text().splitlines():
                if line.strip():
                    d = json.loads(line)
                    _ANCHOR_FILES[d["id"]] = set(d.get("anchors", {}).get("files", []))
        except Exception:
            pass
    return _ANCHOR_FILES.get(prop, set())


def _apply(src_dir: Path, m: dict) -> Optional[str]:
    """Apply the edits of a mutant. Returns None on success or a reason for skipping."""
    if m.get("patch"):
        import subprocess
        root = src_dir.parent.parent  # <tmp>/src/nanoemoji -> <tmp>
        r = subprocess.run(["patch", "-p1", "-s", "-f", "-d", str(root), "-i", m["patch"]], capture_output=True, text=True)
        if r.returncode != 0:
            return f"seeded patch does not apply to the tree under test: {(r.stdout + r.stderr).strip()[:120]}"
        return None
    for e in m["edits"]:
        p = src_dir / e["file"]
        if not p.exists():
            return f"file {e['file']} missing"
        text = p.read_text()
        cnt = text.count(e["old"])
        want = e.get("count", 1)
        if cnt != want:
            return f"anchor occurs {cnt}x (expected {want}) in {e['file']}: {e['old'][:50]!r}"
        text = text.replace(e["old"], e["new"])
        p.write_text(text)
    return None


REFORMAT = "__reformat_whole_tree__"


def run_mutant(m: dict, repo: str = "/repo") -> dict:
    from .model import load_model, AnalysisError
    from . import report
    from .rules import PROPERTY_META  # noqa

    tmp = Path(tempfile.mkdtemp(prefix="nv-mut-"))
    try:
        dst = tmp / "src" / "nanoemoji"
        dst.parent.mkdir(parents=True)
        shutil.copytree(Path(repo) / "src" / "nanoemoji", dst, ignore=shutil.ignore_patterns("__pycache__", "*.pyc"))
        if m.get("edits") == REFORMAT:
            # benign variant: every module re-printed by ast.unparse (comments, layout and line numbers all change)
            import ast as _a
            for f in dst.glob("*.py"):
                f.write_text(_a.unparse(_a.parse(f.read_text())) + "\n")
            m = dict(m, edits=[])
            why = None
        else:
            why = _apply(dst, m)
        if why:
            return {"id": m["id"], "status": "skipped", "why": why}
        # must still compile
        import ast as _ast
        for e in m["edits"]:
            try:
                _ast.parse((dst / e["file"]).read_text())
            except SyntaxError as se:
                return {"id": m["id"], "status": "broken-mutant", "why": f"does not parse: {se}"}
        model = load_model(tmp)
        report.CURRENT_DRIFT.clear()
        report.CURRENT_DRIFT.update(getattr(model, "drift", {}) or {})
        report.CURRENT_DELETION_ONLY.clear()
        report.CURRENT_DELETION_ONLY.update(getattr(model, "deletion_only", set()) or set())
        fired: Dict[str, List[str]] = {}
        errors: List[str] = []
        sites: Dict[str, set] = {}
        shape_sites: Dict[str, set] = {}
        drifts: Dict[str, list] = {}
        site_keys: Dict[str, list] = {}
        for prop in m["props"]:
            for fn in report.RULES.rules.get(prop, []):
                rr = report.RuleResult(fn.rule_id, fn.title, floor=fn.floor)
                try:
                    fn(model, rr)
                    if len(rr.instances) < rr.floor:
                        errors.append(f"{fn.rule_id}: floor")
                except AnalysisError as e:
                    errors.append(f"{fn.rule_id}: {e}")
                except Exception as e:
                    errors.append(f"{fn.rule_id}: crash {e!r}")
                known = {k["key"] for k in report.load_known_findings().get("findings", []) if k["property"] == prop}
                for f in rr.findings:
                    if f.key() not in known:
                        fired.setdefault(fn.rule_id, []).append(f"{f.func}: {f.construct}")
                        sites.setdefault(fn.rule_id, set()).add(f.site)
                        drifts.setdefault(f.site, []).append(f.drift)
                        site_keys.setdefault(f"{fn.rule_id}|{f.site_key}", []).append([f.drift, f.func in report.CURRENT_DELETION_ONLY])
                for sh, st in zip(rr.shapes, rr.shape_sites):
                    errors.append(f"{fn.rule_id}: shape {sh[:120]}")
                    shape_sites.setdefault(fn.rule_id, set()).add(st)
        equivalent = bool(getattr(model, "tree_equivalent", False))
        if equivalent:
            # run_property reports nothing on a tree that differs from the reference in spelling only (nv/fingerprint.py): mirror it
            fired, errors = {}, []
        expect = m["expect"]
        if expect == "no-violation":
            ok = not fired
        elif expect == "silent":
            ok = not fired and not errors
        elif expect == "error":
            ok = bool(errors) or bool(fired)
        else:
            exp = [expect] if isinstance(expect, str) else list(expect)
            ok = any(r in fired for r in exp)
            if ok and m.get("names"):
                ok = any(m["names"] in s for r in exp for s in fired.get(r, []))
        return {"id": m["id"], "status": "ok" if ok else "FAILED", "fired": fired, "errors": errors, "equivalent": equivalent,
                "expect": expect, "sites": {k: sorted(v) for k, v in sites.items()}, "shape_sites": {k: sorted(v) for k, v in shape_sites.items()}, "drifts": drifts, "site_keys": site_keys}
    finally:
        shutil.rmtree(tmp, ignore_errors=True)


def run_all(prop: Optional[str] = None, jobs: int = 16, repo: str = "/repo") -> Tuple[List[dict], float]:
    ms = load_mutants(prop)
    props = [prop] if prop else sorted({p for m in ms for p in m["props"]})
    for p in props:
        ms.append(dict(id=f"{p.lower()}-benign-reformat-whole-tree", props=[p], expect="silent", edits=REFORMAT))
    t0 = time.time()
    if not ms:
        return [], 0.0
    with ProcessPoolExecutor(max_workers=min(jobs, len(ms))) as ex:
        res = list(ex.map(run_mutant, ms, [repo] * len(ms)))
    return res, time.time() - t0


def run_for_property(prop: str, seed: int = 0) -> int:
    res, dt = run_all(prop)
    failed = [r for r in res if r["status"] in ("FAILED", "broken-mutant")]
    skipped = [r for r in res if r["status"] == "skipped"]
    killed = [r for r in res if r["status"] == "ok" and r.get("expect") not in ("silent", "no-violation")]
    silent = [r for r in res if r["status"] == "ok" and r.get("expect") == "silent"]
    benign = [r for r in res if r.get("expect") == "no-violation"]
    benign_undecided = [r["id"] for r in benign if r["status"] == "ok" and r.get("errors")]
    print(f"[{prop}] self-test: {len(res)} variants in {dt:.1f}s: {len(killed)} mutants reported, "
          f"{len(silent)} benign variants silent, {len(skipped)} skipped (anchor drifted), {len(failed)} failed; "
          f"{len(benign)} refactorings: {len(benign) - len(benign_undecided) - sum(1 for r in benign if r['status'] != 'ok')} silent, {len(benign_undecided)} undecided (exit 2), "
          f"{sum(1 for r in benign if r['status'] != 'ok')} falsely reported")
    # append to evidence
    evp = VERIF / "evidence" / f"{prop}.json"
    try:
        ev = json.loads(evp.read_text())
        ev["coverage"]["selftest"] = {
            "variants": len(res), "mutants_reported": len(killed), "benign_silent": len(silent),
            "refactorings": {"run": len(benign), "undecided_exit_2": benign_undecided, "falsely_reported": [r["id"] for r in benign if r["status"] != "ok"]},
            "skipped": [f"{r['id']}: {r['why']}" for r in skipped], "failed": [r["id"] for r in failed],
            "kill_matrix": {r["id"]: sorted(r.get("fired", {})) for r in res if r["status"] != "skipped"},
        }
        ev["wall_s"] = round(ev.get("wall_s", 0) + dt, 3)
        evp.write_text(json.dumps(ev, indent=1))
    except Exception as e:  # pragma: no cover
        print(f"ANALYSIS-ERROR property={prop} cannot update evidence with self-test: {e!r}")
        return 2
    # instance-complete mutation operators
    auto_fail = []
    try:
        from . import automutate
        t1 = time.time()
        ares = automutate.run(prop=prop)
        summ = automutate.summarise(ares)
        ev = json.loads(evp.read_text())
        ev["coverage"]["selftest"]["instance_complete_operators"] = summ
        ev["wall_s"] = round(ev.get("wall_s", 0) + time.time() - t1, 3)
        evp.write_text(json.dumps(ev, indent=1))
        for op, d in summ.items():
            if d["applicable"] == 0:
                continue
            ratio = (d["killed"] + d["error"]) / d["applicable"]
            print(f"[{prop}] operator {op}: {d['killed']} reported + {d['error']} analysis-error of {d['applicable']} sites "
                  f"({len(d['survivors'])} survivors)")
            if ratio + 1e-9 < automutate.FLOORS.get(op, 1.0):
                auto_fail.append(f"{op}: kill ratio {ratio:.2f} below {automutate.FLOORS.get(op, 1.0)} (survivors: {d['survivors'][:5]})")
    except Exception as e:
        auto_fail.append(f"automutate crashed: {e!r}")
    # behaviour-preserving rewrites (rename locals / parameters, named return values, flipped ifs, debug logging) must stay silent
    try:
        from . import robust
        t2 = time.time()
        n_eff, rbad = robust.run([prop])
        ev = json.loads(evp.read_text())
        ev["coverage"]["selftest"]["behaviour_preserving_rewrites"] = {
            "operators": list(robust.OPS) + ["rename-params"], "granularity": "one variant per operator and module",
            "effective_variants": n_eff, "variants_with_reports": [f"{op} {m}: {[(o[1], o[2]) for o in u]}" for op, m, fn, sites, u in rbad]}
        ev["wall_s"] = round(ev.get("wall_s", 0) + time.time() - t2, 3)
        evp.write_text(json.dumps(ev, indent=1))
        print(f"[{prop}] behaviour-preserving rewrites: {n_eff} variants, {len(rbad)} with reports")
        for op, m, fn, sites, u in rbad:
            auto_fail.append(f"benign rewrite {op} of {m} is reported: {u[:3]}")
    except Exception as e:
        auto_fail.append(f"robustness probe crashed: {e!r}")
    for a in auto_fail:
        print(f"ANALYSIS-ERROR property={prop} self-test {a}")
    if auto_fail:
        return 2
    for r in failed:
        print(f"ANALYSIS-ERROR property={prop} self-test variant {r['id']} {r['status']}: expected {r.get('expect')}, "
              f"fired {r.get('fired')}, errors {r.get('errors')} {r.get('why', '')}")
    return 2 if failed else 0


if __name__ == "__main__":
    prop = sys.argv[1] if len(sys.argv) > 1 and sys.argv[1] != "all" else None
    res, dt = run_all(prop)
    bad = 0
    for r in res:
        flag = r["status"]
        if flag != "ok":
            bad += 1
        print(f"{flag:8} {r['id']:40} expect={r.get('expect')} fired={sorted(r.get('fired', {}))} "
              f"{r.get('why', '')} {r.get('errors') if r.get('errors') else ''}")
    print(f"{len(res)} variants, {bad} not ok, {dt:.1f}s")
    sys.exit(2 if any(r["status"] in ("FAILED", "broken-mutant") for r in res) else 0)
