"""Declared coordinate-space signatures for E4 (DESIGN Appendix A), each confirmed by reading the code and its comments.

Spaces (kind[owner]):
  vb     SVG viewBox user units, y down                     vb0   viewBox with origin moved to (0,0)
  emd    em box in font units, y down, origin at ascender   font  font units, y up, origin on the baseline
  otsvg  OT-SVG: font units, y down, origin on baseline     bbox  objectBoundingBox unit square
Owners: tgt = the colour glyph being built, don = the glyph whose outline is borrowed by reuse. $x are variables.
`poly:` marks a value that is re-instantiated at every use (the same numbers serve the target's and the donor's frame)."""

VB2FONT = "vb[$o]->font[$o]"

SIGS = {
    "*methods*": {
        "transform_for_font_space": dict(params={}, ret="vb[tgt]->font[tgt]"),
        "transform_for_otsvg_space": dict(params={}, ret="vb[tgt]->otsvg[tgt]"),
    },
    # ------------------------------------------------------------------ color_glyph.py
    "color_glyph.scale_viewbox_to_font_metrics": dict(
        params={}, ret="vb[$o]->emd[$o]",
        literals={"1 0 0 1 t": "vb[$o]->vb0[$o]",  # normalise the viewBox origin
                  "x 0 0 x t": "vb0[$o]->emd[$o]"},  # uniform scale to the em height + horizontal centring
    ),
    "color_glyph.map_viewbox_to_font_space": dict(
        params={"user_transform": "font[$o]->font[$o]"}, ret="vb[$o]->font[$o]",
        literals={"1 0 0 -1 t": "emd[$o]->font[$o]"},  # y flip at the ascender line
    ),
    "color_glyph.map_viewbox_to_otsvg_space": dict(
        params={"user_transform": "font[$o]->font[$o]"}, ret="vb[$o]->otsvg[$o]",
        literals={"1 0 0 1 t": "emd[$o]->otsvg[$o]",  # shift the ascender line up to y = -ascender (baseline at 0)
                  "1 0 0 -1 t0": "flip:font|otsvg"},  # conjugation of the font-space user transform
    ),
    "color_glyph._get_gradient_transform": dict(
        params={"shape_bbox": "@vb[$o]"}, ret="~G->font[$o]",
        attrs={"config.transform": "font[$o]->font[$o]"},
        rect_literals={"Rect(0, 0, 1, 1)": "@bbox[$o]"},
        fromstring="~G!font!otsvg!emd->~U!font!otsvg!emd",  # gradient coordinates -> whatever space gradientUnits selects (viewBox or bounding box)
    ),
    "color_glyph._parse_linear_gradient": dict(params={"shape_bbox": "@vb[$o]"}, ret="@font[$o]"),
    "color_glyph._parse_radial_gradient": dict(params={"shape_bbox": "@vb[$o]"}, ret="@font[$o]"),
    # ------------------------------------------------------------------ paint.py
    "paint.PaintLinearGradient.apply_transform": dict(
        params={"self": "@$A", "transform": "$A->$B"}, ret="@$B", self_is_arg=True,
        attrs={"self.p0": "@$A", "self.p1": "@$A", "self.p2": "@$A"}, geometry_fields=["p0", "p1", "p2"],
    ),
    "paint._decompose_uniform_transform": dict(params={"transform": "$A->$B"}, ret=("$A->#U", "#U->$B"), trusted=True),  # #U: the circle-preserving frame, distinct from all others
    "paint.PaintRadialGradient.apply_transform": dict(
        params={"self": "@$A", "transform": "$A->$B"}, ret="@$B", self_is_arg=True,
        attrs={"self.c0": "@$A", "self.c1": "@$A"}, geometry_fields=["c0", "c1"],
    ),
    "paint.transformed": dict(params={"transform": "$A->$B", "target": "@$A"}, ret="@$B", trusted=True),
    # ------------------------------------------------------------------ write_font.py
    "write_font._migrate_paths_to_ufo_glyphs": dict(
        params={}, methods={"color_glyph.transform_for_font_space": dict(params={}, ret="vb[tgt]->font[tgt]")},
    ),
    "write_font._migrate_paths_to_ufo_glyphs._update_paint_glyph": dict(
        params={"paint": {"glyph": "@vb[tgt]", "paint": "@font[tgt]"}}, ret="@font[tgt]", passthrough=["paint"],
        methods={
            "glyph_cache.try_reuse": dict(params={"path": "@$K[tgt]"}, order=["path"],
                                         ret={"glyph_name": "@$K[don]", "transform": "$K[don]->$K[tgt]"}),
            "glyph_cache.add_glyph": dict(params={"glyph_path": "@font[tgt]"}, order=["glyph_name", "glyph_path"], ret="?"),
        },
        calls={"PaintGlyph": dict(params={"glyph": "@$A", "paint": "@$A"}, order=["glyph", "paint"], ret="@$A")},
    ),
    "write_font._create_glyph": dict(params={"path_in_font_space": "@font[tgt]"}, ret={"name": "@font[tgt]"},
                                     calls={"draw_svg_path": dict(params={"path": "@font[$o]"}, order=["path", "pen"], ret="?")}),
    # ------------------------------------------------------------------ svg.py
    "svg._map_gradient_coordinates": dict(
        params={"paint": "@$A", "affine": "$A->$B"}, ret="@$B",
        attrs={"paint.p0": "@$A", "paint.p1": "@$A", "paint.p2": "@$A", "paint.c0": "@$A", "paint.c1": "@$A"},
    ),
    "svg._define_gradient": dict(params={"paint": "@$G", "transform": "$G->$E"}, ret="@$E", trusted=True,
                                 defaults={"transform": "$G->$G"}),
    "svg._apply_gradient_paint": dict(
        params={"svg_path": "@$B", "paint": "@$A", "transform": "$A->$B"}, ret="?", defaults={"transform": "$A->$A"},
        frame_sinks={"svg_path.attrib['fill']": "svg_path"},
    ),
    "svg._apply_paint": dict(
        params={"el": "@vb[$Q]", "paint": "@font[$P]", "upem_to_vbox": "poly:font[$x]->vb[$x]", "transform": "font[$P]->font[$Q]"},
        ret="?", defaults={"transform": "font[$P]->font[$P]"},
    ),
    "svg._create_use_element": dict(params={"reuse_result": {"transform": "vb[don]->vb[tgt]"}}, ret="@vb[don]", trusted=True),
    "svg._add_glyph": dict(
        params={},
        methods={
            "color_glyph.transform_for_otsvg_space": dict(params={}, ret="vb[tgt]->otsvg[tgt]"),
            "color_glyph.transform_for_font_space": dict(params={}, ret="poly:vb[$x]->font[$x]"),
            "reuse_cache.reuse_results.get": dict(params={}, ret={"glyph_name": "@vb[don]", "transform": "vb[don]->vb[tgt]"}),
        },
        locals={"context": {"paint": {"paint": "@font[tgt]", "glyph": "@vb[tgt]"}}, "vbox_to_upem": "poly:vb[$x]->font[$x]",
                "upem_to_vbox": "poly:font[$x]->vb[$x]"},
        subscripts={"reuse_cache.glyph_elements[glyph_name]": "@vb[tgt]", "reuse_cache.glyph_elements[reused_glyph_name]": "@vb[don]"},
        sinks={"svg_g.attrib['transform']": "vb[tgt]->otsvg[tgt]"},
        calls={"_svg_matrix": dict(params={"transform": "$A->$B"}, order=["transform"], ret="$A->$B")},
    ),
    "svg._rawsvg_docs": dict(
        params={}, methods={"color_glyph.transform_for_otsvg_space": dict(params={}, ret="vb[tgt]->otsvg[tgt]")},
        calls={"_svg_matrix": dict(params={"transform": "vb[$o]->otsvg[$o]"}, order=["transform"], ret="vb[$o]->otsvg[$o]")},
    ),
    # ------------------------------------------------------------------ colr_to_svg.py
    "colr_to_svg.map_font_space_to_viewbox": dict(params={}, ret="font[$o]->vb[$o]"),
    "colr_to_svg._draw_svg_path": dict(
        params={"font_to_vbox": "font[$o]->vb[$o]"}, ret="?",
        calls={"transformPen.TransformPen": dict(params={"t": "font[$o]->vb[$o]"}, order=["pen", "t"], ret="?")},
    ),
    "colr_to_svg._gradient_paint": dict(params={"ot_paint": "@$A"}, ret="@$A", trusted=True),
    "colr_to_svg._apply_gradient_ot_paint": dict(
        params={"svg_path": "@vb[$E]", "font_to_vbox": "poly:font[$x]->vb[$x]", "ot_paint": "@font[$I]", "transform": "font[$I]->font[$E]"},
        ret="?", defaults={"transform": "font[$I]->font[$I]"},
    ),
    "colr_to_svg._apply_transform": dict(
        params={"transform": "font[$P]->font[$Q]", "font_to_vbox": "poly:font[$x]->vb[$x]", "el": "@vb[$Q]"},
        ret="font[$P]->font[$P]", effects={"el": "@vb[$P]"}, identity_refines=True,
        sinks={"el.attrib['transform']": "vb[$P]->vb[$Q]"},
        calls={"_svg_matrix": dict(params={"transform": "$A->$B"}, order=["transform"], ret="$A->$B")},
    ),
    "colr_to_svg._colr_v1_paint_to_svg": dict(
        params={"parent_el": "@vb[$E]", "font_to_vbox": "poly:font[$x]->vb[$x]", "ot_paint": "@font[$I]", "transform": "font[$I]->font[$E]"},
        ret="?", defaults={"transform": "font[$I]->font[$I]"},
    ),
    "colr_to_svg._view_box_and_transform": dict(params={}, ret=("?", "font[$o]->vb[$o]")),
}

# functions whose bodies are type-checked (the typed region); `trusted` signatures are used at call sites only
TYPED_REGION = [
    ("color_glyph", "scale_viewbox_to_font_metrics"), ("color_glyph", "map_viewbox_to_font_space"),
    ("color_glyph", "map_viewbox_to_otsvg_space"), ("color_glyph", "_get_gradient_transform"),
    ("color_glyph", "_parse_linear_gradient"), ("color_glyph", "_parse_radial_gradient"),
    ("paint", "PaintLinearGradient.apply_transform"), ("paint", "PaintRadialGradient.apply_transform"),
    ("write_font", "_migrate_paths_to_ufo_glyphs._update_paint_glyph"), ("write_font", "_create_glyph"),
    ("svg", "_map_gradient_coordinates"), ("svg", "_apply_gradient_paint"), ("svg", "_apply_paint"), ("svg", "_add_glyph"),
    ("svg", "_rawsvg_docs"),
    ("colr_to_svg", "map_font_space_to_viewbox"), ("colr_to_svg", "_draw_svg_path"), ("colr_to_svg", "_apply_gradient_ot_paint"),
    ("colr_to_svg", "_apply_transform"), ("colr_to_svg", "_colr_v1_paint_to_svg"), ("colr_to_svg", "_view_box_and_transform"),
]
