"""E4 (spaces): a units-of-measure style checker for coordinate spaces of affines, points, paths, paints and elements.

Types
  Aff(S1, S2)   an affine mapping coordinates of space S1 to space S2
  Frm(S)        a point / path / rectangle / paint geometry / element user space expressed in space S
  Rec{...}      a record with typed fields (PaintGlyph before migration: glyph in viewBox space, paint in font space)
  TOP           unknown (unifies with anything, counted as unchecked)
A space is kind[owner]; kinds are vb vb0 emd font otsvg bbox ...; owners are tgt / don / variables. Signature variables
($A spaces, $o owners) are rigid while a function's own body is checked and fresh at each call site.

The interpreter enumerates paths through a function (if/elif forks, try handlers start from the state at try entry,
loop bodies once), infers local types forward, and checks every compose / inverse / map / apply / call against the declared
signatures of nv/space_sigs.py. Nothing is executed."""
from __future__ import annotations

import ast
import itertools
from dataclasses import dataclass, field
from typing import Any, Dict, List, Optional, Tuple, Union

from .model import AnalysisError, FuncInfo, Model, callee_tail, norm, short

Y_UP = {"font"}
Y_DOWN = {"vb", "vb0", "emd", "otsvg", "bbox", "units", "grad"}

_ids = itertools.count()


class TVar:
    __slots__ = ("name", "ref", "rigid", "id", "forbid")

    def __init__(self, name: str, rigid: bool = False, forbid=()):
        self.name = name
        self.ref = None
        self.rigid = rigid
        self.id = next(_ids)
        self.forbid = frozenset(forbid)  # space kinds this variable may not stand for

    def __repr__(self):
        r = resolve(self)
        if r is self:
            return f"{'!' if self.rigid else '?'}{self.name}"
        return repr(r)


@dataclass
class Sp:
    kind: Any  # str | TVar
    owner: Any  # str | TVar

    def __repr__(self):
        return f"{show(self.kind)}[{show(self.owner)}]"


@dataclass
class Aff:
    src: Any  # Sp | TVar
    dst: Any

    def __repr__(self):
        return f"{show(self.src)}->{show(self.dst)}"


@dataclass
class Frm:
    sp: Any
    inner: Any = None  # lazily created: the frame of a wrapper paint's child

    def __repr__(self):
        return f"@{show(self.sp)}"


@dataclass
class Rec:
    fields: Dict[str, Any]

    def __repr__(self):
        return "{" + ", ".join(f"{k}: {show(v)}" for k, v in self.fields.items()) + "}"


@dataclass
class Tup:
    items: List[Any]


@dataclass
class Poly:
    spec: Any  # type spec re-instantiated at every use


class Flip(Aff):
    """Affine2D(1,0,0,-1,0,0): the y flip between font space (y up) and OT-SVG space (y down), same origin; its direction
    is fixed by its neighbours in a composition."""

    def __init__(self, src, dst, owner):
        super().__init__(src, dst)
        self.owner = owner

    def orient(self, from_kind: str):
        other = {"font": "otsvg", "otsvg": "font"}.get(from_kind)
        if other is None:
            return False
        try:
            unify(self.src, Sp(from_kind, self.owner))
            unify(self.dst, Sp(other, self.owner))
        except Mismatch:
            return False
        return True


class _Top:
    def __repr__(self):
        return "T?"


TOP = _Top()


_ASSUME: Dict[int, Any] = {}  # per-path equalities between rigid variables (set by the interpreter before each statement)


def resolve(t):
    while isinstance(t, TVar):
        if t.ref is not None:
            t = t.ref
        elif t.rigid and t.id in _ASSUME:
            t = _ASSUME[t.id]
        else:
            break
    return t


def show(t) -> str:
    t = resolve(t)
    return t if isinstance(t, str) else repr(t)


class Mismatch(Exception):
    pass


def unify(a, b):
    a, b = resolve(a), resolve(b)
    if a is b:
        return
    if a is TOP or b is TOP:
        return
    for x, y in ((a, b), (b, a)):
        if isinstance(x, TVar) and not x.rigid:
            if x.forbid:
                if isinstance(y, Sp) and isinstance(resolve(y.kind), str) and resolve(y.kind) in x.forbid:
                    raise Mismatch(f"{show(x)} (may not be a {'/'.join(sorted(x.forbid))} space) vs {show(y)}")
                if isinstance(y, TVar) and not y.rigid:
                    y.forbid = y.forbid | x.forbid
            x.ref = y
            return
    if isinstance(a, TVar) or isinstance(b, TVar):
        raise Mismatch(f"{show(a)} vs {show(b)}")
    if isinstance(a, str) and isinstance(b, str):
        if a != b:
            raise Mismatch(f"{a} vs {b}")
        return
    if isinstance(a, Sp) and isinstance(b, Sp):
        try:
            unify(a.kind, b.kind)
            unify(a.owner, b.owner)
        except Mismatch:
            raise Mismatch(f"{show(a)} vs {show(b)}")
        return
    raise Mismatch(f"{show(a)} vs {show(b)}")


def is_known(sp) -> bool:
    sp = resolve(sp)
    if sp is TOP:
        return False
    if isinstance(sp, TVar):
        return sp.rigid
    if isinstance(sp, Sp):
        k = resolve(sp.kind)
        return isinstance(k, str) or (isinstance(k, TVar) and k.rigid)
    return False


# ---------------------------------------------------------------------------------------------
# type specs (DSL) -> types

def parse_space(s: str, vars: Dict[str, TVar], rigid: bool):
    s = s.strip()

    def var(name):
        if name.startswith("#"):
            if name not in vars:
                vars[name] = TVar(name, rigid=True)  # skolem: a fresh space distinct from every other
            return vars[name]
        if name.startswith("~"):
            nm, _, forb = name.partition("!")
            return TVar(nm, forbid=[f for f in forb.split("!") if f])  # existential: fresh and flexible at every use
        if name not in vars:
            vars[name] = TVar(name, rigid)
        return vars[name]

    if s.startswith(("$", "~", "#")) and "[" not in s:
        return var(s)
    if "[" in s:
        kind, owner = s[:-1].split("[")
        k = var(kind) if kind.startswith(("$", "~")) else kind
        o = var(owner) if owner.startswith(("$", "~")) else owner
        return Sp(k, o)
    return Sp(s, var("$_o_" + s))


def parse_type(spec, vars: Dict[str, TVar], rigid: bool = False):
    if spec is None or spec == "?":
        return TOP
    if isinstance(spec, dict):
        return Rec({k: parse_type(v, vars, rigid) for k, v in spec.items()})
    if isinstance(spec, (list, tuple)):
        return Tup([parse_type(v, vars, rigid) for v in spec])
    if isinstance(spec, Poly):
        return spec
    s = spec.strip()
    if s.startswith("poly:"):
        return Poly(s[5:])
    if s.startswith("@"):
        return Frm(parse_space(s[1:], vars, rigid))
    if "->" in s:
        a, b = s.split("->")
        return Aff(parse_space(a, vars, rigid), parse_space(b, vars, rigid))
    raise AnalysisError(f"bad type spec {spec!r}")


def copy_type(t, memo: Dict[int, Any]):
    """Copy a type so that flexible variables are fresh but sharing is preserved (used when forking paths)."""
    t0 = t
    t = resolve(t)
    if isinstance(t, TVar):
        if t.rigid:
            return t
        if t.id not in memo:
            memo[t.id] = TVar(t.name)
        return memo[t.id]
    if isinstance(t, Sp):
        return Sp(copy_type(t.kind, memo) if not isinstance(resolve(t.kind), str) else resolve(t.kind),
                  copy_type(t.owner, memo) if not isinstance(resolve(t.owner), str) else resolve(t.owner))
    if isinstance(t, Aff):
        return Aff(copy_type(t.src, memo), copy_type(t.dst, memo))
    if isinstance(t, Frm):
        key = ("frm", id(t))
        if key in memo:
            return memo[key]
        f = Frm(copy_type(t.sp, memo), None)
        memo[key] = f
        if t.inner is not None:
            f.inner = copy_type(t.inner, memo)
        return f
    if isinstance(t, Rec):
        key = ("rec", id(t))
        if key in memo:
            return memo[key]
        r = Rec({})
        memo[key] = r
        r.fields = {k: copy_type(v, memo) for k, v in t.fields.items()}
        return r
    if isinstance(t, Tup):
        return Tup([copy_type(v, memo) for v in t.items])
    return t


# ---------------------------------------------------------------------------------------------
@dataclass
class SpaceError:
    fi: FuncInfo
    node: ast.AST
    message: str


class Returned(Exception):
    pass


class Interp:
    """Checks one function body against its declared signature."""

    MAX_PATHS = 3000

    def __init__(self, model: Model, sigs: Dict[str, dict], fi: FuncInfo, outer_env: Optional[Dict[str, Any]] = None):
        self.model = model
        self.sigs = sigs
        self.fi = fi
        self.sig = sigs.get(fi.fq, {})
        self.errors: List[SpaceError] = []
        self.checked: List[str] = []
        self.unchecked = 0
        self.rigid_vars: Dict[str, TVar] = {}
        self.outer_env = outer_env or {}
        self.paths = 0
        self.literal_ordinal: Dict[int, int] = {}
        n = 0
        for node in ast.walk(fi.node):
            if isinstance(node, ast.Call) and norm(node.func) == "Affine2D":
                self.literal_ordinal[id(node)] = n
                n += 1
        self.nested: Dict[str, ast.FunctionDef] = {}

    # -- reporting ---------------------------------------------------------------------------
    def err(self, node, msg):
        key = (norm(node), msg)
        if not any((norm(e.node), e.message) == key for e in self.errors):
            self.errors.append(SpaceError(self.fi, node, msg))

    def require(self, a, b, node, what: str):
        """Unify two spaces; record a checked obligation when both are known."""
        ka, kb = is_known(a), is_known(b)
        sa, sb = show(a), show(b)
        try:
            unify(a, b)
        except Mismatch as m:
            self.err(node, f"{what}: {sa} does not match {sb}")
            return False
        if ka and kb:
            self.checked.append(f"{what}: {sa} = {sb}  [{short(node, 60)}]")
        else:
            self.unchecked += 1
        return True

    # -- environment ---------------------------------------------------------------------------
    def initial_env(self) -> Dict[str, Any]:
        env = dict(self.outer_env)
        for p, spec in self.sig.get("params", {}).items():
            env[p] = parse_type(spec, self.rigid_vars, rigid=True)
        for p in self.fi.params:
            env.setdefault(p, TOP)
        return env

    def declared_local(self, name: str):
        spec = self.sig.get("locals", {}).get(name)
        if spec is None:
            return None
        return parse_type(spec, self.rigid_vars, rigid=True)

    def fork(self, env):
        memo: Dict[int, Any] = {}
        return {k: (dict(v) if k in ("__assume__", "__facts__") else copy_type(v, memo) if not isinstance(v, (Poly, ast.AST)) else v) for k, v in env.items()}

    # -- expressions ---------------------------------------------------------------------------
    def inst(self, spec, vars=None):
        return parse_type(spec, {} if vars is None else vars, rigid=False)

    def aff_of(self, t, node) -> Optional[Aff]:
        t = resolve(t)
        if isinstance(t, Aff):
            return t
        if t is TOP:
            return Aff(TVar("a"), TVar("b"))
        if isinstance(t, Poly):
            return self.aff_of(self.inst(t.spec), node)
        if isinstance(t, (Frm, Rec, Tup)):
            self.err(node, f"expected an affine, found {show(t)}")
        return Aff(TVar("a"), TVar("b"))

    def frame_of(self, t, node):
        t = resolve(t)
        if isinstance(t, Frm):
            return t.sp
        if isinstance(t, Rec):
            # a record used as geometry: all its frame fields must agree
            sps = [f.sp for f in t.fields.values() if isinstance(f, Frm)]
            if sps:
                for s in sps[1:]:
                    try:
                        unify(sps[0], s)
                    except Mismatch:
                        return TOP
                return sps[0]
        if isinstance(t, Aff):
            self.err(node, f"expected geometry, found affine {show(t)}")
        return TOP

    def compose(self, parts: List[Tuple[Any, ast.AST]], node) -> Aff:
        affs = [(self.aff_of(t, n), n) for t, n in parts]
        for i, (a, n) in enumerate(affs):
            if isinstance(a, Flip) and not is_known(a.src):
                k = None
                if i > 0:
                    d = resolve(affs[i - 1][0].dst)
                    if isinstance(d, Sp) and isinstance(resolve(d.kind), str):
                        k = resolve(d.kind)
                if k not in ("font", "otsvg"):
                    self.err(n, f"y flip {short(n, 40)} follows a map into {k or 'an unknown space'}: it only converts between font space and OT-SVG space")
                else:
                    a.orient(k)
        for (a, na), (b, nb) in zip(affs, affs[1:]):
            self.require(a.dst, b.src, node, f"composition {short(na, 40)} then {short(nb, 40)}")
        if not affs:
            v = TVar("i")
            return Aff(v, v)
        return Aff(affs[0][0].src, affs[-1][0].dst)

    @staticmethod
    def literal_shape(call: ast.Call) -> str:
        def tok(a):
            if isinstance(a, ast.Constant) and isinstance(a.value, (int, float)):
                return f"{a.value:g}"
            if isinstance(a, ast.UnaryOp) and isinstance(a.op, ast.USub) and isinstance(a.operand, ast.Constant):
                return f"{-a.operand.value:g}"
            return "x"
        toks = [tok(a) for a in call.args[:6]]
        if len(toks) != 6:
            return "?"
        tr = "t0" if toks[4] == "0" and toks[5] == "0" else "t"
        return " ".join(toks[:4] + [tr])

    def literal(self, call: ast.Call, env) -> Any:
        lits = self.sig.get("literals")
        if not lits:
            return TOP
        spec = lits.get(self.literal_shape(call))
        if spec is None:
            self.err(call, f"affine literal {short(call)} (shape '{self.literal_shape(call)}') has no declared meaning in {self.fi.name}: "
                           f"declared shapes are {sorted(lits)}")
            return TOP
        if spec == "flip:font|otsvg":
            o = self.rigid_vars.setdefault("$o", TVar("$o", True))
            return Flip(TVar("flip_src"), TVar("flip_dst"), o)
        t = parse_type(spec, self.rigid_vars, rigid=True)
        # orientation check from the sign of the determinant when the linear part is constant
        try:
            vals = []
            for a in call.args[:4]:
                if isinstance(a, ast.Constant):
                    vals.append(float(a.value))
                elif isinstance(a, ast.UnaryOp) and isinstance(a.op, ast.USub) and isinstance(a.operand, ast.Constant):
                    vals.append(-float(a.operand.value))
                else:
                    vals = None
                    break
            if vals and len(vals) == 4:
                det = vals[0] * vals[3] - vals[1] * vals[2]
                ks, kd = resolve(t.src), resolve(t.dst)
                if isinstance(ks, Sp) and isinstance(kd, Sp) and isinstance(ks.kind, str) and isinstance(kd.kind, str):
                    flips = (ks.kind in Y_UP) != (kd.kind in Y_UP)
                    if (det < 0) != flips:
                        self.err(call, f"literal {short(call)} is declared {show(t)} but its determinant is {det:g}: "
                                       f"{'a y flip is needed between a y-down and a y-up space' if flips else 'no y flip belongs between two spaces of the same orientation'}")
                    else:
                        self.checked.append(f"orientation of {short(call, 50)}: det {det:g} consistent with {show(t)}")
        except Exception:
            pass
        return t

    def ev(self, e: ast.AST, env: Dict[str, Any]):
        if e is None:
            return TOP
        if isinstance(e, ast.Name):
            t = env.get(e.id, TOP)
            if isinstance(t, Poly):
                return self.inst(t.spec)
            return t
        if isinstance(e, ast.Constant):
            return TOP
        if isinstance(e, ast.Attribute):
            return self.ev_attr(e, env)
        if isinstance(e, ast.Call):
            return self.ev_call(e, env)
        if isinstance(e, ast.BinOp) and isinstance(e.op, ast.MatMult):
            return self.compose([(self.ev(e.right, env), e.right), (self.ev(e.left, env), e.left)], e)
        if isinstance(e, (ast.Tuple, ast.List)):
            return Tup([self.ev(x, env) for x in e.elts])
        if isinstance(e, ast.IfExp):
            self.ev(e.test, env)
            a, b = self.ev(e.body, env), self.ev(e.orelse, env)
            return a if resolve(a) is not TOP else b
        if isinstance(e, ast.Subscript):
            base = self.ev(e.value, env)
            base = resolve(base)
            if isinstance(base, Tup) and isinstance(e.slice, ast.Constant) and isinstance(e.slice.value, int) and e.slice.value < len(base.items):
                return base.items[e.slice.value]
            # declared subscript types: e.g. reuse_cache.glyph_elements[glyph_name]
            spec = self.sig.get("subscripts", {}).get(norm(e)) or self.sig.get("subscripts", {}).get(norm(e.value))
            if spec is not None:
                return parse_type(spec, self.rigid_vars, rigid=True)
            return TOP
        if isinstance(e, (ast.BoolOp, ast.Compare, ast.UnaryOp)):
            for c in ast.iter_child_nodes(e):
                if isinstance(c, ast.expr):
                    self.ev(c, env)
            return TOP
        if isinstance(e, ast.JoinedStr):
            # f"url(#{grad_id})" keeps the frame of the id it embeds
            for v in e.values:
                if isinstance(v, ast.FormattedValue):
                    t = resolve(self.ev(v.value, env))
                    if isinstance(t, Frm):
                        return t
            return TOP
        if isinstance(e, ast.Starred):
            return self.ev(e.value, env)
        if isinstance(e, ast.Dict):
            for v in e.values:
                self.ev(v, env)
            return TOP
        if isinstance(e, (ast.GeneratorExp, ast.ListComp, ast.SetComp, ast.DictComp, ast.Lambda, ast.Set)):
            return TOP
        return TOP

    def ev_attr(self, e: ast.Attribute, env):
        txt = norm(e)
        spec = self.sig.get("attrs", {}).get(txt)
        if spec is not None:
            return parse_type(spec, self.rigid_vars, rigid=True)
        base = resolve(self.ev(e.value, env))
        if isinstance(base, Rec):
            if e.attr in base.fields:
                return base.fields[e.attr]
            return TOP
        if isinstance(base, Frm):
            if e.attr in ("paint", "Paint", "SourcePaint"):
                if base.inner is None:
                    base.inner = Frm(TVar("inner"))
                # a PaintGlyph/PaintComposite child shares the parent's frame unless the parent is a transform wrapper;
                # the caller distinguishes through gettransform(); without it the child frame is the wrapper's inner frame
                return base.inner
            if e.attr in ("d", "glyph", "name", "p0", "p1", "p2", "c0", "c1", "Glyph", "x", "y"):
                return base
            return TOP
        return TOP

    def call_sig(self, fq: str) -> Optional[dict]:
        return self.sigs.get(fq)

    def apply_sig(self, sig: dict, call: ast.Call, callee: Optional[FuncInfo], env, what: str):
        """Check arguments against a declared signature instantiated fresh; return its result type; apply effects."""
        vars: Dict[str, TVar] = {}
        ptypes = {p: parse_type(s, vars, rigid=False) for p, s in sig.get("params", {}).items()}
        params = sig.get("order") or (callee.params if callee is not None else list(ptypes))
        if callee is not None and callee.cls and params and params[0] in ("self", "cls") and not sig.get("self_is_arg"):
            params = params[1:]
        bound: Dict[str, ast.AST] = {}
        for i, a in enumerate(call.args):
            if isinstance(a, ast.Starred):
                break
            if i < len(params):
                bound[params[i]] = a
        for k in call.keywords:
            if k.arg:
                bound[k.arg] = k.value
        # defaults that matter (identity transforms)
        for p, dspec in sig.get("defaults", {}).items():
            if p not in bound and p in ptypes:
                dt = parse_type(dspec, vars, rigid=False)
                self.match(ptypes[p], dt, call, f"{what}: default of {p}")
        for p, a in bound.items():
            if p in ptypes:
                at = self.ev(a, env)
                self.match(ptypes[p], at, a, f"{what}: argument {p}")
            else:
                self.ev(a, env)
        for p, espec in sig.get("effects", {}).items():
            a = bound.get(p)
            if isinstance(a, ast.Name):
                env[a.id] = parse_type(espec, vars, rigid=False)
        return parse_type(sig.get("ret"), vars, rigid=False)

    def match(self, want, got, node, what):
        want, got = resolve(want), resolve(got)
        if isinstance(got, Poly):
            got = self.inst(got.spec)
        if isinstance(want, Poly):
            return
        if want is TOP or got is TOP:
            if want is not TOP:
                self.unchecked += 1
            return
        if isinstance(want, Aff):
            g = self.aff_of(got, node)
            self.require(g.src, want.src, node, f"{what} (source space)")
            self.require(g.dst, want.dst, node, f"{what} (target space)")
        elif isinstance(want, Frm):
            self.require(self.frame_of(got, node), want.sp, node, f"{what} (frame)")
        elif isinstance(want, Rec) and isinstance(got, Rec):
            for k, v in want.fields.items():
                if k in got.fields:
                    self.match(v, got.fields[k], node, f"{what}.{k}")

    def ev_call(self, c: ast.Call, env):
        fn = norm(c.func)
        tail = callee_tail(c)
        # ---- Affine2D algebra ----
        if fn in ("Affine2D.identity",):
            v = TVar("id")
            return Aff(v, v)
        if fn == "Affine2D":
            for a in c.args:
                self.ev(a, env)
            return self.literal(c, env)
        if fn in ("Affine2D.compose_ltr",) and c.args:
            seq = c.args[0]
            if isinstance(seq, (ast.Tuple, ast.List)):
                return self.compose([(self.ev(x, env), x) for x in seq.elts], c)
            self.ev(seq, env)
            return TOP
        if fn == "Affine2D.rect_to_rect" and len(c.args) == 2:
            a, b = self.ev(c.args[0], env), self.ev(c.args[1], env)
            return Aff(self.frame_of(a, c.args[0]), self.frame_of(b, c.args[1]))
        if fn == "Affine2D.fromstring":
            spec = self.sig.get("fromstring")
            return parse_type(spec, self.rigid_vars, rigid=True) if spec else TOP
        if fn in ("Rect", "Point") and self.sig.get("rect_literals", {}).get(norm(c)):
            return parse_type(self.sig["rect_literals"][norm(c)], self.rigid_vars, rigid=True)
        if fn in ("etree.SubElement",) and c.args:
            t = resolve(self.ev(c.args[0], env))
            return Frm(t.sp) if isinstance(t, Frm) else TOP
        if fn in ("Paint.from_ot",) and c.args:
            return self.ev(c.args[0], env)
        if fn in ("cast", "typing.cast") and len(c.args) == 2:
            return self.ev(c.args[1], env)
        if fn in ("SVGPath",):
            d = None
            for k in c.keywords:
                if k.arg == "d":
                    d = k.value
            if d is not None:
                t = resolve(self.ev(d, env))
                if isinstance(t, Frm):
                    return Frm(t.sp)
            return TOP
        if fn == "dataclasses.replace" and c.args:
            base = resolve(self.ev(c.args[0], env))
            kws = {k.arg: self.ev(k.value, env) for k in c.keywords if k.arg}
            if isinstance(base, Rec):
                nf = dict(base.fields)
                for k, v in kws.items():
                    nf[k] = v
                return Rec(nf)
            if isinstance(base, Frm):
                geo = [v for k, v in kws.items() if isinstance(resolve(v), Frm)]
                if geo:
                    sp0 = resolve(geo[0]).sp
                    for g in geo[1:]:
                        self.require(resolve(g).sp, sp0, c, "replaced geometry fields share one frame")
                    # all geometry fields of the class must be replaced for the frame to change
                    need = self.sig.get("geometry_fields")
                    if need and not set(need) <= set(kws):
                        self.err(c, f"only {sorted(set(kws) & set(need))} of the geometry fields {sorted(need)} are mapped: the "
                                    f"result mixes frames {show(base.sp)} and {show(sp0)}")
                    return Frm(sp0)
                return base
            return TOP
        if isinstance(c.func, ast.Attribute):
            recv_node = c.func.value
            m = c.func.attr
            # declared method signatures by (receiver text, method)
            msig = self.sig.get("methods", {}).get(f"{norm(recv_node)}.{m}") or self.sigs.get("*methods*", {}).get(m)
            recv_t = None
            if m in ("inverse", "translate", "scale", "round", "rotate", "skew", "_replace", "almost_equals", "is_degenerate",
                     "map_point", "map_vector", "apply_transform", "gettransform", "getscale", "gettranslate", "tostring",
                     "decompose_scale", "decompose_translation", "check_overflows", "round_floats", "as_path", "d"):
                recv_t = resolve(self.ev(recv_node, env))
            if m == "inverse" and recv_t is not None:
                a = self.aff_of(recv_t, recv_node)
                return Aff(a.dst, a.src)
            if m in ("translate", "scale", "round", "rotate", "skew", "_replace") and isinstance(recv_t, Aff):
                for a in c.args:
                    self.ev(a, env)
                return recv_t
            if m in ("map_point", "map_vector") and recv_t is not None and c.args:
                a = self.aff_of(recv_t, recv_node)
                p = self.ev(c.args[0], env)
                self.require(self.frame_of(p, c.args[0]), a.src, c, f"{short(recv_node, 30)}.{m}({short(c.args[0], 30)})")
                return Frm(a.dst)
            if m == "apply_transform" and recv_t is not None and c.args:
                t = self.aff_of(self.ev(c.args[0], env), c.args[0])
                fr = self.frame_of(recv_t, recv_node)
                self.require(fr, t.src, c, f"{short(recv_node, 40)}.apply_transform({short(c.args[0], 30)})")
                return Frm(t.dst)
            if m in ("round", "round_floats", "as_path", "check_overflows") and isinstance(recv_t, Frm):
                return recv_t
            if m == "gettransform" and isinstance(recv_t, Frm):
                if recv_t.inner is None:
                    recv_t.inner = Frm(TVar("inner"))
                return Aff(recv_t.inner.sp, recv_t.sp)
            if msig is not None:
                return self.apply_sig(msig, c, None, env, f"{short(c.func, 40)}")
        # ---- nested closures ----
        if isinstance(c.func, ast.Name) and c.func.id in self.nested:
            return self.call_nested(self.nested[c.func.id], c, env)
        # ---- package functions with declared signatures ----
        callee = self.model.resolve_call(self.fi, c)
        if callee is not None:
            sig = self.sigs.get(callee.fq)
            if sig is not None:
                return self.apply_sig(sig, c, callee, env, callee.fq)
        for a in c.args:
            self.ev(a, env)
        for k in c.keywords:
            self.ev(k.value, env)
        gs = self.sig.get("calls", {}).get(fn)
        if gs is not None:
            return self.apply_sig(gs, c, None, env, fn)
        return TOP

    def call_nested(self, fdef: ast.FunctionDef, c: ast.Call, env):
        inner = dict(env)
        params = [a.arg for a in fdef.args.args]
        for p, a in zip(params, c.args):
            inner[p] = self.ev(a, env)
        for st in fdef.body:
            if isinstance(st, ast.Expr):
                self.ev(st.value, inner)
            elif isinstance(st, ast.Return):
                return self.ev(st.value, inner)
        return TOP

    # -- statements ----------------------------------------------------------------------------
    def assign(self, target, value_t, env, node):
        if isinstance(target, ast.Name) and target.id in env.get("__facts__", {}):
            f = dict(env["__facts__"])
            f.pop(target.id, None)
            env["__facts__"] = f
        if isinstance(target, ast.Name):
            vt = resolve(value_t)
            decl = self.declared_local(target.id)
            if decl is not None and (vt is TOP):
                env[target.id] = decl
            elif decl is not None and isinstance(decl, Poly):
                # a declared polymorphic local is still checked against what is assigned to it
                if vt is not TOP and not isinstance(vt, Poly):
                    self.match(self.inst(decl.spec), value_t, node, f"local {target.id} (declared {decl.spec})")
                env[target.id] = decl
            else:
                env[target.id] = value_t
        elif isinstance(target, (ast.Tuple, ast.List)):
            vt = resolve(value_t)
            for i, t in enumerate(target.elts):
                sub = vt.items[i] if isinstance(vt, Tup) and i < len(vt.items) else TOP
                self.assign(t, sub, env, node)
        elif isinstance(target, ast.Subscript):
            # sinks: el.attrib["transform"] = ...
            key = norm(target)
            for pat, spec in self.sig.get("sinks", {}).items():
                if pat == key:
                    want = parse_type(spec, self.rigid_vars, rigid=True)
                    self.match(want, value_t, node, f"sink {key}")
            fs = self.sig.get("frame_sinks", {}).get(key)
            if fs is not None:
                # value's frame must equal the frame of the element named by fs
                el_t = resolve(env.get(fs, TOP))
                vt = resolve(value_t)
                if isinstance(el_t, Frm) and isinstance(vt, Frm):
                    self.require(vt.sp, el_t.sp, node, f"{key} must be expressed in the user space of {fs}")
        elif isinstance(target, ast.Attribute):
            pass

    def refine_identity(self, name: str, env):
        cur = resolve(env.get(name, TOP))
        assume = dict(env.get("__assume__", {}))
        if isinstance(cur, Aff):
            a, b = resolve(cur.src), resolve(cur.dst)
            pairs = []
            if isinstance(a, Sp) and isinstance(b, Sp):
                pairs = [(resolve(a.kind), resolve(b.kind)), (resolve(a.owner), resolve(b.owner))]
            else:
                pairs = [(a, b)]
            for x, y in pairs:
                if isinstance(x, TVar) and isinstance(y, TVar) and x.rigid and y.rigid and x is not y:
                    assume[y.id] = x
        env["__assume__"] = assume
        v = TVar("idr")
        env[name] = Aff(v, v)

    def exec_block(self, stmts: List[ast.stmt], envs: List[Dict[str, Any]]) -> List[Dict[str, Any]]:
        global _ASSUME
        for st in stmts:
            nxt = []
            for env in envs:
                _ASSUME.clear()
                _ASSUME.update(env.get("__assume__", {}))
                nxt += self.exec_stmt(st, env)
                _ASSUME.clear()
            envs = nxt
            if len(envs) > self.MAX_PATHS:
                raise AnalysisError(f"{self.fi.fq}: more than {self.MAX_PATHS} paths")
            if not envs:
                break
        return envs

    def check_return(self, value, env, node):
        want_spec = self.sig.get("ret")
        if want_spec is None or value is None:
            if value is not None:
                self.ev(value, env)
            return
        # returning an unmodified parameter is not a statement about frames
        if isinstance(value, ast.Name) and value.id in self.fi.params and value.id in self.sig.get("passthrough", []):
            return
        got = self.ev(value, env)
        want = parse_type(want_spec, self.rigid_vars, rigid=True)
        if isinstance(want, Tup) and isinstance(resolve(got), Tup):
            for w, g in zip(want.items, resolve(got).items):
                self.match(w, g, node, "return value")
        else:
            self.match(want, got, node, "return value")

    def exec_stmt(self, st: ast.stmt, env) -> List[Dict[str, Any]]:
        if isinstance(st, (ast.FunctionDef, ast.AsyncFunctionDef)):
            self.nested[st.name] = st
            return [env]
        if isinstance(st, ast.Assign):
            vt = self.ev(st.value, env)
            for t in st.targets:
                self.assign(t, vt, env, st)
            return [env]
        if isinstance(st, ast.AnnAssign):
            if st.value is not None:
                self.assign(st.target, self.ev(st.value, env), env, st)
            return [env]
        if isinstance(st, ast.AugAssign):
            if isinstance(st.op, ast.MatMult) and isinstance(st.target, ast.Name):
                cur = env.get(st.target.id, TOP)
                res = self.compose([(self.ev(st.value, env), st.value), (cur, st.target)], st)
                env[st.target.id] = res
            else:
                self.ev(st.value, env)
            return [env]
        if isinstance(st, ast.Expr):
            self.ev(st.value, env)
            return [env]
        if isinstance(st, ast.Return):
            self.check_return(st.value, env, st)
            self.paths += 1
            return []
        if isinstance(st, ast.Raise):
            self.paths += 1
            return []
        if isinstance(st, ast.If):
            self.ev(st.test, env)
            # correlate repeated tests of the same (unmodified) condition: `if not overflows: ... if not overflows:`
            core, pos = st.test, True
            changed = True
            while changed:
                changed = False
                if isinstance(core, ast.UnaryOp) and isinstance(core.op, ast.Not):
                    core, pos, changed = core.operand, not pos, True
                elif isinstance(core, ast.Compare) and len(core.ops) == 1 and isinstance(core.comparators[0], ast.Constant) \
                        and isinstance(core.comparators[0].value, bool) and isinstance(core.ops[0], (ast.Is, ast.Eq, ast.IsNot, ast.NotEq)):
                    same = isinstance(core.ops[0], (ast.Is, ast.Eq))
                    pos = pos if (core.comparators[0].value == same) else not pos
                    core, changed = core.left, True
            fkey = norm(core)
            known = env.get("__facts__", {}).get(fkey)
            if known is not None and isinstance(core, ast.Name):
                take_true = (known == pos)
                if take_true:
                    return self.exec_block(st.body, [env])
                return self.exec_block(st.orelse, [env]) if st.orelse else [env]
            e1, e2 = self.fork(env), self.fork(env)
            if isinstance(core, ast.Name):
                f1 = dict(env.get("__facts__", {}))
                f1[fkey] = pos
                f2 = dict(env.get("__facts__", {}))
                f2[fkey] = not pos
                e1["__facts__"], e2["__facts__"] = f1, f2
            # refinement: on the branch where `x == Affine2D.identity()`, x is the identity of whatever space is needed and
            # its source and target frames coincide (rigid owners are assumed equal on that path)
            t = st.test
            if isinstance(t, ast.Compare) and len(t.ops) == 1 and isinstance(t.ops[0], (ast.Eq, ast.NotEq)) and isinstance(t.left, ast.Name) \
                    and norm(t.comparators[0]) == "Affine2D.identity()":
                tgt_env = e1 if isinstance(t.ops[0], ast.Eq) else e2
                self.refine_identity(t.left.id, tgt_env)
            # refinement: a paint that is not a gradient carries no geometry and fits any frame
            neg = isinstance(t, ast.UnaryOp) and isinstance(t.op, ast.Not)
            tt = t.operand if neg else t
            if isinstance(tt, ast.Call) and norm(tt.func) == "is_gradient" and tt.args and isinstance(tt.args[0], ast.Name):
                (e1 if neg else e2)[tt.args[0].id] = Frm(TVar("nogeom"))
            out = self.exec_block(st.body, [e1])
            out += self.exec_block(st.orelse, [e2]) if st.orelse else [e2]
            return out
        if isinstance(st, (ast.For, ast.AsyncFor)):
            self.ev(st.iter, env)
            e1 = self.fork(env)
            for n in ast.walk(st.target):
                if isinstance(n, ast.Name):
                    d = self.declared_local(n.id)
                    e1[n.id] = d if d is not None else TOP
            body_out = self.exec_block(st.body, [e1])
            # continue with: loop not taken, or taken once
            return [env] + body_out
        if isinstance(st, ast.While):
            self.ev(st.test, env)
            e1 = self.fork(env)
            body_out = self.exec_block(st.body, [e1])
            return [env] + body_out
        if isinstance(st, (ast.With, ast.AsyncWith)):
            for it in st.items:
                self.ev(it.context_expr, env)
            return self.exec_block(st.body, [env])
        if isinstance(st, ast.Try):
            entry = self.fork(env)
            out = self.exec_block(st.body, [env])
            if st.orelse:
                out = self.exec_block(st.orelse, out)
            for h in st.handlers:
                out += self.exec_block(h.body, [self.fork(entry)])
            if st.finalbody:
                out = self.exec_block(st.finalbody, out)
            return out
        if isinstance(st, ast.Assert):
            self.ev(st.test, env)
            return [env]
        if isinstance(st, (ast.Break, ast.Continue)):
            return []
        return [env]

    def run(self):
        env = self.initial_env()
        out = self.exec_block(self.fi.body, [env])
        self.paths += len(out)
        return self


def check_function(model: Model, sigs: Dict[str, dict], modname: str, qualname: str) -> Interp:
    fi = model.func(modname, qualname)
    outer = {}
    if fi.parent is not None:
        # closure variables: evaluate the enclosing function's simple assignments first
        pi = Interp(model, sigs, fi.parent)
        env = pi.initial_env()
        for st in fi.parent.body:
            if isinstance(st, ast.Assign):
                vt = pi.ev(st.value, env)
                for t in st.targets:
                    pi.assign(t, vt, env, st)
        outer = env
    it = Interp(model, sigs, fi, outer)
    if fi.parent is not None:
        it.rigid_vars = pi.rigid_vars
    return it.run()
