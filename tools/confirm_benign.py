#!/venv/bin/python
"""File a behaviour-preserving refactoring under /verif/benign/<id>/ after checking, in a scratch worktree of /repo (removed afterwards), that the patch
applies to HEAD, every module compiles and the 235 pinned baseline tests still pass.  (That the refactoring preserves behaviour beyond the tests is the
author's argument in NOTES.md plus their equivalence harness; it is not re-proved here.)

usage: tools/confirm_benign.py <src_dir> <benign_id> <property>"""
import json
import shutil
import sys
import tempfile
from pathlib import Path

sys.path.insert(0, str(Path(__file__).resolve().parent))
from confirm_seed import VERIF, run_suite, sh  # noqa: E402


def main():
    src, bid, prop = Path(sys.argv[1]), sys.argv[2], sys.argv[3]
    patch = src / "patch.diff"
    base = json.loads(Path("/root/.vp/BASELINE.json").read_text())
    stable = set(base["stable_pass"])
    wt = Path(tempfile.mkdtemp(prefix="confirm-wt-"))
    wt.rmdir()
    meta = {"benign_id": bid, "property": prop, "source": "sub-agent asked for behaviour-preserving refactorings of the property's mechanism (saw only the property text and a scratch worktree)"}
    try:
        rc, out = sh(f"git -C /repo worktree add -q --detach {wt} HEAD")
        if rc:
            print(out)
            return 2
        rc, out = sh(f"git apply {patch}", cwd=wt)
        if rc:
            meta["status"] = "patch does not apply: " + out[:200]
        else:
            rcc, _ = sh("/venv/bin/python -m compileall -q src/nanoemoji", cwd=wt)
            passed = run_suite(wt)
            meta["confirmed"] = {"compiles": rcc == 0, "baseline_stable_tests": len(stable), "baseline_stable_tests_passing_with_change": len(stable & passed),
                                 "baseline_missing": sorted(stable - passed)[:10]}
            meta["status"] = "confirmed" if rcc == 0 and stable <= passed else "NOT confirmed"
    finally:
        sh(f"git -C /repo worktree remove --force {wt}")
        shutil.rmtree(wt, ignore_errors=True)
    dst = VERIF / "benign" / bid
    dst.mkdir(parents=True, exist_ok=True)
    shutil.copy(patch, dst / "patch.diff")
    for extra in ("NOTES.md", "equiv_test.py"):
        if (src / extra).exists():
            shutil.copy(src / extra, dst / extra)
    (dst / "meta.json").write_text(json.dumps(meta, indent=1))
    print(json.dumps({k: meta.get(k) for k in ("benign_id", "status")}))
    return 0


if __name__ == "__main__":
    sys.exit(main())
