#!/venv/bin/python
"""Confirm a seeded change independently and file it under /verif/seeded/<id>/.

usage: tools/confirm_seed.py <src_dir> <seed_id> <property> [--needs "..."]
  <src_dir> holds patch.diff, demo_test.py|demo.py, NOTES.md (as delivered by a seeding sub-agent)

In a scratch git worktree of /repo (under /tmp, removed afterwards) it checks that
  1. the patch applies to /repo's HEAD and every touched module still parses,
  2. the pinned baseline (235 stable tests) still passes with the patch,
  3. the demonstration fails with the patch and passes without it,
and then runs every /verif check against the patched tree (applied to /repo itself and undone straight afterwards)."""
import argparse
import json
import os
import shutil
import subprocess
import sys
import tempfile
import xml.etree.ElementTree as ET
from pathlib import Path

VERIF = Path(__file__).resolve().parent.parent


def sh(cmd, cwd=None, env=None, timeout=1800):
    p = subprocess.run(cmd, shell=True, cwd=cwd, env=env, capture_output=True, text=True, timeout=timeout)
    return p.returncode, p.stdout + p.stderr


def run_suite(wt: Path):
    td = tempfile.mkdtemp(prefix="confirm-tmp-")
    env = dict(os.environ, PYTHONPATH=str(wt / "src"), TMPDIR=td)
    xml = wt / "junit.xml"
    sh(f"/venv/bin/python -m pytest -q -p no:cacheprovider --timeout=900 --continue-on-collection-errors --junitxml={xml}", cwd=wt, env=env)
    passed = set()
    for tc in ET.parse(xml).getroot().iter("testcase"):
        if not any(c.tag in ("failure", "error", "skipped") for c in tc):
            passed.add(f"{tc.get('classname')}::{tc.get('name')}")
    xml.unlink()
    shutil.rmtree(td, ignore_errors=True)
    return passed


def run_demo(wt: Path, demo: Path, workdir: Path):
    env = dict(os.environ, PYTHONPATH=str(wt / "src"), PATH="/venv/bin:" + os.environ.get("PATH", ""))
    if demo.name.endswith("_test.py") or demo.name.startswith("test_") or "pytest" in demo.read_text()[:3000]:
        rc, out = sh(f"/venv/bin/python -m pytest -q -p no:cacheprovider --timeout=900 -x {demo.name}", cwd=workdir, env=env)
    else:
        rc, out = sh(f"/venv/bin/python {demo.name}", cwd=workdir, env=env)
    tail = [l for l in out.strip().splitlines() if l.strip()][-1:] or [""]
    return rc, tail[0]


def main():
    ap = argparse.ArgumentParser()
    ap.add_argument("src")
    ap.add_argument("seed_id")
    ap.add_argument("prop")
    ap.add_argument("--needs", default="")
    ap.add_argument("--source", default="sub-agent given only the property text and a scratch worktree")
    ap.add_argument("--no-detect", action="store_true", help="confirm only; leave detected_by for a later --detect-only run")
    ap.add_argument("--detect-only", action="store_true", help="reuse the confirmation recorded in seeded/<id>/meta.json; only re-run the checks")
    a = ap.parse_args()
    src = Path(a.src)
    patch = src / "patch.diff"
    demos = [p for p in src.iterdir() if p.name.startswith("demo") and p.suffix == ".py"]
    if not patch.exists() or not demos:
        print("missing patch.diff or demo")
        return 2
    demo = demos[0]
    base = json.loads(Path("/root/.vp/BASELINE.json").read_text())
    stable = set(base["stable_pass"])
    wt = Path(tempfile.mkdtemp(prefix="confirm-wt-"))
    wt.rmdir()
    meta = {"seed_id": a.seed_id, "property": a.prop, "source": a.source, "needs_to_manifest": a.needs}
    old = VERIF / "seeded" / a.seed_id / "meta.json"
    if a.detect_only and old.exists():
        meta = json.loads(old.read_text())
        patch = VERIF / "seeded" / a.seed_id / "patch.diff"
    try:
        if a.detect_only and old.exists():
            raise StopIteration
        rc, out = sh(f"git -C /repo worktree add -q --detach {wt} HEAD")
        if rc:
            print(out)
            return 2
        work = Path(tempfile.mkdtemp(prefix="confirm-demo-"))
        shutil.copy(demo, work / demo.name)
        for extra in src.iterdir():
            if extra.is_file() and extra.name not in ("patch.diff", "NOTES.md", demo.name) and extra.suffix in (".svg", ".toml", ".png", ".json", ".py", ".fea", ".ttf"):
                shutil.copy(extra, work / extra.name)
        # demo on the unmodified tree
        rc0, t0 = run_demo(wt, demo, work)
        rc, out = sh(f"git apply {patch}", cwd=wt)
        if rc:
            rc, out = sh(f"git apply -3 {patch}", cwd=wt)
        if rc:
            meta["status"] = "patch does not apply to /repo HEAD: " + out[:200]
            print(meta["status"])
            return 1
        rcc, out = sh("/venv/bin/python -m compileall -q src/nanoemoji", cwd=wt)
        passed = run_suite(wt)
        rc1, t1 = run_demo(wt, demo, work)
        shutil.rmtree(work, ignore_errors=True)
        meta["confirmed"] = {
            "compiles": rcc == 0,
            "baseline_stable_tests": len(stable),
            "baseline_stable_tests_passing_with_change": len(stable & passed),
            "baseline_missing": sorted(stable - passed)[:10],
            "demo_without_change": {"exit": rc0, "last_line": t0},
            "demo_with_change": {"exit": rc1, "last_line": t1},
            "commands": [
                f"git -C /repo worktree add --detach <scratch> HEAD; git apply seeded/{a.seed_id}/patch.diff",
                "cd <scratch> && PYTHONPATH=<scratch>/src /venv/bin/python -m pytest -q -p no:cacheprovider --timeout=900 --continue-on-collection-errors --junitxml=...",
                f"PATH=/venv/bin:$PATH PYTHONPATH=<scratch>/src /venv/bin/python -m pytest -q -x {demo.name}   (with and without the patch)",
            ],
        }
        ok = rcc == 0 and stable <= passed and rc0 == 0 and rc1 != 0
        meta["status"] = "confirmed" if ok else "NOT confirmed"
    except StopIteration:
        pass
    finally:
        sh(f"git -C /repo worktree remove --force {wt}")
        shutil.rmtree(wt, ignore_errors=True)
    # run the checks against the patched /repo
    det = {}
    if meta["status"] == "confirmed" and not a.no_detect:
        if sh("git -C /repo status --porcelain")[1].strip():
            print("/repo not clean; skipping detection run")
        else:
            rc, out = sh(f"git -C /repo apply {patch}")
            if rc:
                rc, out = sh(f"git -C /repo apply -3 {patch}")
            try:
                evd = tempfile.mkdtemp(prefix="confirm-ev-")
                for i in range(1, 21):
                    pid = f"C{i:02d}"
                    rc, out = sh(f"/venv/bin/python check {pid} --tier quick --evidence-dir {evd}", cwd=VERIF)
                    if rc != 0:
                        rules = sorted({l.split("[")[1].split("]")[0] for l in out.splitlines() if "] " in l and l.strip().startswith("src/")})
                        det[pid] = {"exit": rc, "rules": rules}
                shutil.rmtree(evd, ignore_errors=True)
            finally:
                sh("git -C /repo checkout -- . && git -C /repo reset -q")
                left = sh("git -C /repo status --porcelain")[1].strip()
                if left:
                    sh("git -C /repo clean -fdq")
    meta["detected_by"] = det
    meta["detected_by_own_property_check"] = a.prop in det and det[a.prop]["exit"] == 1
    dst = VERIF / "seeded" / a.seed_id
    dst.mkdir(parents=True, exist_ok=True)
    if a.detect_only and old.exists():
        (dst / "meta.json").write_text(json.dumps(meta, indent=1))
        print(json.dumps({k: meta[k] for k in ("seed_id", "status", "detected_by_own_property_check")}), json.dumps(det))
        return 0
    shutil.copy(patch, dst / "patch.diff")
    shutil.copy(demo, dst / demo.name)
    for extra in src.iterdir():
        if extra.is_file() and extra.suffix == ".py" and extra.name != demo.name and not extra.name.startswith(("peek", "colr_walk")):
            shutil.copy(extra, dst / extra.name)
    if (src / "NOTES.md").exists():
        shutil.copy(src / "NOTES.md", dst / "NOTES.md")
    (dst / "meta.json").write_text(json.dumps(meta, indent=1))
    print(json.dumps({k: meta[k] for k in ("seed_id", "status", "detected_by_own_property_check")}), json.dumps(det))
    return 0


if __name__ == "__main__":
    sys.exit(main())
