#!/venv/bin/python
"""Refresh `detected_by` in seeded/<id>/meta.json for every confirmed seeded change, in parallel.

For each seed: a scratch copy of /repo's src/ (under $TMPDIR, removed afterwards) gets the seed's patch (`patch -p1`), and every
property's quick check runs with `--repo <scratch>`.  Equivalent to `git -C /repo apply` + checks + `git -C /repo checkout -- .`
(tools/confirm_seed.py --detect-only does exactly that, one seed at a time) but leaves /repo alone and uses all cores.

usage: tools/detect_matrix.py [seed ids ...] [--jobs 12]"""
import argparse
import json
import shutil
import subprocess
import sys
import tempfile
from concurrent.futures import ThreadPoolExecutor
from pathlib import Path

VERIF = Path(__file__).resolve().parent.parent
PROPS = [f"C{i:02d}" for i in range(1, 21)]


def one(sid: str):
    d = VERIF / "seeded" / sid
    meta = json.loads((d / "meta.json").read_text())
    if meta.get("status") != "confirmed":
        return sid, None
    tmp = Path(tempfile.mkdtemp(prefix="nv-det-"))
    try:
        shutil.copytree("/repo/src", tmp / "src", ignore=shutil.ignore_patterns("__pycache__", "*.pyc", "*.egg-info"))
        r = subprocess.run(["patch", "-p1", "-s", "-f", "-d", str(tmp), "-i", str(d / "patch.diff")], capture_output=True, text=True)
        if r.returncode != 0:
            return sid, f"patch failed: {(r.stdout + r.stderr)[:200]}"
        det = {}
        for p in PROPS:
            r = subprocess.run(["/venv/bin/python", str(VERIF / "check"), p, "--tier", "quick", "--repo", str(tmp), "--evidence-dir", str(tmp / "ev"), "--replay-dir", str(tmp / "replay")],
                               capture_output=True, text=True, cwd=VERIF)
            if r.returncode != 0:
                out = r.stdout + r.stderr
                rules = sorted({l.split("[")[1].split("]")[0] for l in out.splitlines() if "] " in l and l.strip().startswith("src/")})
                det[p] = {"exit": r.returncode, "rules": rules}
                if r.returncode == 2:
                    det[p]["analysis_error"] = [l[:200] for l in out.splitlines() if l.startswith("ANALYSIS-ERROR")][:2]
        meta["detected_by"] = det
        meta["detected_by_own_property_check"] = meta["property"] in det and det[meta["property"]]["exit"] == 1
        meta["detection_method"] = "quick check of every property with --repo <scratch copy of /repo/src with patch.diff applied>"
        (d / "meta.json").write_text(json.dumps(meta, indent=1))
        return sid, det
    finally:
        shutil.rmtree(tmp, ignore_errors=True)


def main():
    ap = argparse.ArgumentParser()
    ap.add_argument("ids", nargs="*")
    ap.add_argument("--jobs", type=int, default=12)
    a = ap.parse_args()
    ids = a.ids or sorted(p.name for p in (VERIF / "seeded").iterdir() if (p / "meta.json").exists())
    missed = []
    with ThreadPoolExecutor(max_workers=a.jobs) as ex:
        for sid, det in ex.map(one, ids):
            if det is None:
                continue
            if isinstance(det, str):
                print(sid, det)
                missed.append(sid)
                continue
            prop = sid.split("-")[0]
            own = det.get(prop, {})
            tag = "ok" if own.get("exit") == 1 else ("EXIT2" if own.get("exit") == 2 else "MISSED")
            print(f"{sid}: {tag} own={own.get('rules')} others={ {k: v['rules'] for k, v in det.items() if k != prop} }")
            if tag != "ok":
                missed.append(sid)
    print(f"{len(ids)} seeds, {len(missed)} not reported by their own property: {missed}")
    return 0


if __name__ == "__main__":
    sys.exit(main())
