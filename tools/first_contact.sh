#!/bin/bash
# usage: tools/first_contact.sh <patch.diff> [own property]
# Runs every property's quick check on a scratch copy of /repo's src/ with the patch applied (nothing is written to /repo or /verif) and prints,
# per property that does not exit 0, the rules that fired (exit 1) or the first analysis error (exit 2).  Used to measure a new seeded change or
# refactoring against the machinery as it stands ("first contact", DESIGN 10.5h-j).
P=$(readlink -f "$1"); OWN=$2
S=$(mktemp -d "${TMPDIR:-/tmp}/nvfc-XXXXXX")
cp -r /repo/src "$S/"; (cd "$S" && patch -s -f -p1 < "$P" >/dev/null 2>&1) || { echo "patch failed"; rm -rf "$S"; exit 2; }
cd "$(dirname "$0")/.."
out=""
for i in $(seq -w 1 20); do
  r=$(/venv/bin/python check C$i --tier quick --repo "$S" --evidence-dir "$S/ev" --replay-dir "$S/rp" 2>&1); rc=$?
  if [ $rc -ne 0 ]; then
    rules=$(echo "$r" | grep -o "\[R[-A-Z0-9a-z]*\]" | sort -u | tr -d '[]' | tr '\n' ',')
    [ $rc -eq 2 ] && rules="EXIT2:$(echo "$r" | grep ANALYSIS-ERROR | head -1 | cut -c1-140)"
    out="$out C$i($rules)"
  fi
done
rm -rf "$S"
tag=""
if [ -n "$OWN" ]; then case "$out" in *"$OWN(EXIT2"*) tag="[undecided] ";; *"$OWN("*) tag="[own] ";; *) tag="[MISSED] ";; esac; fi
echo "$tag${out:-silent}"
