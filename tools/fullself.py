#!/venv/bin/python
"""Run every self-test variant of every property (hand mutants, operator mutants, 338 seeded changes, 400 refactorings) and print a summary.
The regression gate used throughout DESIGN §10.5: no violating variant may be missed under its own expected rule, no benign variant may produce a VIOLATION.
~11 min at 16 cores.  usage: tools/fullself.py"""
import collections
import sys
from pathlib import Path

sys.path.insert(0, str(Path(__file__).resolve().parent.parent))
from nv import selftest  # noqa: E402

res, dt = selftest.run_all(None)
c = collections.Counter(r["status"] for r in res)
print(len(res), "variants", dict(c), f"{dt:.0f}s")
for r in res:
    if r["status"] != "ok":
        print(r["status"], r["id"], r.get("expect"), "fired=", sorted(r.get("fired", {})), [e[:140] for e in r.get("errors", [])[:2]])
ben = [r for r in res if r.get("expect") == "no-violation"]
print("tree-equivalent variants:", len([r for r in res if r.get("equivalent")]))
print("refactorings:", len(ben), "silent", sum(1 for r in ben if r["status"] == "ok" and not r.get("errors")),
      "undecided", sum(1 for r in ben if r["status"] == "ok" and r.get("errors")), "false VIOLATION", sum(1 for r in ben if r["status"] != "ok"))
sys.exit(0 if set(c) <= {"ok"} else 1)
