#!/venv/bin/python
"""Regenerates /verif/MANIFEST.json from nv.rules metadata. Run after adding/removing a property's rules."""
import json
import sys
from pathlib import Path

HERE = Path(__file__).resolve().parent.parent
sys.path.insert(0, str(HERE))
from nv.rules import PROPERTY_META  # noqa
from nv.report import RULES  # noqa

props = [json.loads(l) for l in (HERE / "properties.jsonl").read_text().splitlines() if l.strip()]
READY = set((HERE / "tools" / "claimed.txt").read_text().split())

checks = []
na = []
for p in props:
    pid = p["id"]
    meta = PROPERTY_META.get(pid)
    if pid in READY and meta and RULES.rules.get(pid):
        rules = [f.rule_id for f in RULES.rules[pid]]
        checks.append({
            "property_id": pid,
            "quick_cmd": f"/venv/bin/python check {pid} --tier quick",
            "thorough_cmd": f"/venv/bin/python check {pid} --tier thorough",
            "evidence_file": f"/verif/evidence/{pid}.json",
            "replay_cmd_template": "/venv/bin/python check " + pid + " --replay {path}",
            "engine": "nv (ast-based static analysis: program model, CFG/dominators, def-use/origin sets, "
                      "space+dimension typing, order taint, ninja graph model, guard dominance, schema agreement; read on a behaviour-preserving normal form of the source, E0/E0b)",
            "level_claimed": {
                "category": "other",
                "text": meta["explanation"] + " Rules: " + ", ".join(rules) + ".",
                "design_ref": f"DESIGN.md section 3.{int(pid[1:])}",
            },
            "level_note": "Static analysis of /repo's current source with ast only; nothing under /repo is imported or run. "
                          "Decides the structural clauses named above (necessary conditions of the property), not the behaviour "
                          "itself. Trusted base: CPython ast, the declared signature/seed tables in /verif/nv, fontTools otData.py "
                          "as specification oracle. Declined: " + (meta.get("declined") or "see DESIGN.md"),
            "technique": meta.get("technique", "static analysis: custom ast/CFG/dataflow checkers specific to this repository"),
        })
    else:
        na.append({"property_id": pid, "reason": "check under construction (static rules per DESIGN.md section 3); not yet claimed"})

m = {
    "version": 1,
    "setup_cmd": "/venv/bin/python -m compileall -q nv check tools",
    "hooks": {
        "guard": "NANOEMOJI_VERIF",
        "enable": "none needed: every check is static (ast) and executes nothing from /repo; no hook commit exists",
        "baseline_off_cmd": "cd /repo && /venv/bin/python -m pytest -ra -q -p no:cacheprovider --timeout=900 --continue-on-collection-errors",
        "source_commits": [],
        "add_only": True,
    },
    "engines": [
        {"name": "nv", "path": "/verif/nv", "serves_properties": [c["property_id"] for c in checks],
         "kind_free_text": "repository-specific static analysis over Python ast: program model + call resolution (E1), statement CFG with "
                           "dominators and reaching definitions (E2), def-use and origin sets with control dependence (E3), "
                           "coordinate-space and dimension typing (E4), order/determinism taint (E5), ninja build-graph model (E6), "
                           "guard dominance (E7), sibling/schema agreement against fontTools otData (E8), error discipline (E9); all rules read a normal form of the parsed program (E0: renames, temporaries, helper and constant inlining, control-flow restyling towards the reference spelling) and whole-tree effect fingerprints (E0b) tell a spelling-only change from a change of behaviour"},
    ],
    "checks": checks,
    "not_applicable": na,
    "notes": "All properties are decided (where claimed) by static analysis only; see DESIGN.md. Exit codes: 0 pass / 1 VIOLATION / 2 "
             "ANALYSIS-ERROR (fail closed). Known findings: /verif/known_findings.json.",
}
(HERE / "MANIFEST.json").write_text(json.dumps(m, indent=1) + "\n")
print(f"{len(checks)} checks, {len(na)} not_applicable")
