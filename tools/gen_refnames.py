#!/venv/bin/python
"""Regenerates nv/refnames.json: binding signatures of every local and the parameter list of every function of the tree the
rules were confirmed on (/repo's current HEAD).  Used by nv/normalize.py to undo behaviour-preserving renames."""
import json
import sys
from pathlib import Path

VERIF = Path(__file__).resolve().parent.parent
sys.path.insert(0, str(VERIF))
from nv.normalize import REF_FILE, reference_table  # noqa: E402

repo = Path(sys.argv[1] if len(sys.argv) > 1 else "/repo")
import ast  # noqa: E402
from nv.normalize import Normalizer, functions, skeleton, text_skeleton  # noqa: E402

src = repo / "src" / "nanoemoji"
t = reference_table(src)
# skeletons are taken on the normal form (the one the rules see)
nz = Normalizer(ref=t)
for p in sorted(src.glob("*.py")):
    tree = ast.parse(p.read_text())
    nz.module(p.stem, tree)
    for qn, fn in functions(tree):
        if f"{p.stem}:{qn}" in t:
            t[f"{p.stem}:{qn}"]["skeleton"] = skeleton(fn)
            t[f"{p.stem}:{qn}"]["text_skeleton"] = text_skeleton(fn)
from nv.normalize import call_keywords  # noqa: E402
t["<calls>"] = {"keywords": call_keywords({p.stem: ast.parse(p.read_text()) for p in sorted(src.glob("*.py"))})}
REF_FILE.write_text(json.dumps(t, indent=0, sort_keys=True) + "\n")
print(f"{len(t)} entries, {sum(len(e.get('locals', [])) for e in t.values() if isinstance(e, dict))} locals -> {REF_FILE}")

# effect fingerprints of the reference tree (nv/fingerprint.py), computed on the model the rules see
import os  # noqa: E402
os.environ["NV_NO_FINGERPRINT"] = "1"
from nv.model import load_model  # noqa: E402
from nv.fingerprint import reference_fingerprints  # noqa: E402
fp = reference_fingerprints(load_model(repo))
(REF_FILE.parent / "reffp.json").write_text(json.dumps(fp, indent=0, sort_keys=True) + "\n")
print(f"{len(fp['functions'])} function fingerprints, {len(fp['modules'])} module-level digests -> {REF_FILE.parent / 'reffp.json'}")
