#!/venv/bin/python
"""Regenerates nv/refnames.json: binding signatures of every local and the parameter list of every function of the tree the
rules were confirmed on (/repo's current HEAD).  Used by nv/normalize.py to undo behaviour-preserving renames."""
import json
import sys
from pathlib import Path

VERIF = Path(__file__).resolve().parent.parent
sys.path.insert(0, str(VERIF))
from nv.normalize import REF_FILE, reference_table  # noqa: E402

repo = Path(sys.argv[1] if len(sys.argv) > 1 else "/repo")
t = reference_table(repo / "src" / "nanoemoji")
REF_FILE.write_text(json.dumps(t, indent=0, sort_keys=True) + "\n")
print(f"{len(t)} functions, {sum(len(e.get('locals', [])) for e in t.values())} locals -> {REF_FILE}")
