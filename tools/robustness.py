#!/venv/bin/python
"""Robustness probe (see nv/robust.py): behaviour-preserving rewrites of /repo's source must leave every check silent."""
import sys
from pathlib import Path

sys.path.insert(0, str(Path(__file__).resolve().parent.parent))
from nv.robust import main  # noqa: E402

sys.exit(main())
