#!/venv/bin/python
"""Regenerates /verif/seeded/INDEX.md from the meta.json files."""
import json
from pathlib import Path

S = Path(__file__).resolve().parent.parent / "seeded"
rows = []
for d in sorted(p for p in S.iterdir() if p.is_dir()):
    m = json.loads((d / "meta.json").read_text())
    det = m.get("detected_by", {})
    own = det.get(m["property"], {})
    rules = ", ".join(own.get("rules", [])) if own.get("exit") == 1 else ("exit 2 (analysis error)" if own.get("exit") == 2 else "-")
    others = ", ".join(f"{k}:{'/'.join(v['rules'])}" for k, v in det.items() if k != m["property"] and v.get("exit") == 1)
    rows.append((m["seed_id"], m["property"], m.get("status", "?"), rules, others, m.get("needs_to_manifest", ""), m.get("note", "")))

out = ["# Seeded changes", "",
       "Each directory holds `patch.diff` (apply with `git -C /repo apply`, undo with `git -C /repo checkout -- .`), the demonstration that fails with the change and",
       "passes without it, the seeder's NOTES.md, and `meta.json` (what was confirmed, by which commands, and which checks report the change).",
       "All changes compile and leave the 235 baseline tests passing. None is committed to /repo.", "",
       "| seed | property | confirmed | reported by the property's own check (rules) | also reported under | needs, in order to manifest |",
       "|---|---|---|---|---|---|"]
for r in rows:
    out.append(f"| {r[0]} | {r[1]} | {r[2]} | {r[3]} | {r[4]} | {r[5]}{(' — ' + r[6]) if r[6] else ''} |")
n = len(rows)
hit = sum(1 for r in rows if r[3] not in ("-", "exit 2 (analysis error)"))
out += ["", f"{hit} of {n} confirmed seeded changes are reported (exit 1, VIOLATION) by the check of the property they were seeded against."]
(S / "INDEX.md").write_text("\n".join(out) + "\n")
print(f"{n} seeds, {hit} reported by own property check")
