#!/venv/bin/python
"""Which report sites (rr.bad call sites in nv/rules) fire on violating variants (hand mutants + confirmed seeded changes) and which on
behaviour-preserving refactorings (a directory of patch.diff files).  Sites that only ever fire on refactorings are candidates for rr.shape."""
import json
import sys
from concurrent.futures import ProcessPoolExecutor
from pathlib import Path

VERIF = Path(__file__).resolve().parent.parent
sys.path.insert(0, str(VERIF))
from nv import selftest  # noqa: E402

ALL = [f"C{i:02d}" for i in range(1, 21)]


def main():
    rf_root = Path(sys.argv[1]) if len(sys.argv) > 1 else Path("/tmp/seed-outrf")
    muts = [m for m in selftest.load_mutants(None) if m.get("expect") not in ("silent", "no-violation")]
    # run every violating variant under all the properties it names
    rfs = [dict(id=f"rf-{p.parent.parent.name}-{p.parent.name}", props=ALL, expect="silent", patch=str(p), edits=[]) for p in sorted(rf_root.glob("C*/[0-9]/patch.diff"))]
    with ProcessPoolExecutor(max_workers=12) as ex:
        tp = list(ex.map(selftest.run_mutant, muts))
        fp = list(ex.map(selftest.run_mutant, rfs))
    tp_sites = {}
    for r in tp:
        for rule, ss in r.get("sites", {}).items():
            for s in ss:
                tp_sites.setdefault(s, set()).add(r["id"])
    fp_sites = {}
    for r in fp:
        for rule, ss in r.get("sites", {}).items():
            for s in ss:
                fp_sites.setdefault(s, set()).add(r["id"])
    only_fp = sorted(s for s in fp_sites if s not in tp_sites)
    both = sorted(s for s in fp_sites if s in tp_sites)
    json.dump({"fp_only": {s: sorted(fp_sites[s]) for s in only_fp}, "both": {s: {"fp": sorted(fp_sites[s]), "tp": sorted(tp_sites[s])[:6]} for s in both},
               "rf_status": {r["id"]: {"fired": {k: len(v) for k, v in r.get("fired", {}).items()}, "errors": r.get("errors", [])[:4]} for r in fp}},
              open("/tmp/seedwork/site_stats.json", "w"), indent=1)
    print(f"{len(muts)} violating variants, {len(rfs)} refactorings")
    print(f"sites firing on refactorings only: {len(only_fp)}; on both: {len(both)}; violating-only: {len([s for s in tp_sites if s not in fp_sites])}")
    silent = [r["id"] for r in fp if not r.get("fired") and not r.get("errors")]
    viol = [r["id"] for r in fp if r.get("fired")]
    print(f"refactorings: {len(silent)} silent, {len(viol)} with VIOLATION, {len(fp) - len(silent) - len(viol)} analysis-error only")
    def dr(rs, s):
        out = []
        for r in rs:
            for x in r.get("drifts", {}).get(s, []):
                out.append(x)
        return sorted(out, key=lambda v: (-1 if v is None else v))
    for s in both:
        print("BOTH", s, "tp drifts", dr(tp, s)[:12], "| fp drifts", dr(fp, s)[:8])
    print("FP-only drifts:", sorted({str(x) for s in only_fp for x in dr(fp, s)}))


if __name__ == "__main__":
    main()
