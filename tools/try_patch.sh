#!/bin/bash
# usage: tools/try_patch.sh <patch.diff> [Cxx ...]   -- applies a seeded change to /repo, runs the checks, restores /repo
set -u
P="$1"; shift
PROPS="${*:-C01 C02 C03 C04 C05 C06 C07 C08 C09 C10 C11 C12 C13 C14 C15 C16 C17 C18 C19 C20}"
cd /verif
if [ -n "$(git -C /repo status --porcelain)" ]; then echo "/repo not clean"; exit 3; fi
git -C /repo apply "$P" || { echo "patch does not apply"; exit 3; }
EVD=$(mktemp -d)
for p in $PROPS; do
  out=$(/venv/bin/python check $p --tier quick --evidence-dir "$EVD" 2>&1); rc=$?
  if [ $rc -ne 0 ]; then echo "== $p rc=$rc"; echo "$out" | grep -E "VIOLATION|ANALYSIS-ERROR|^  src" | cut -c1-400; fi
done
rm -rf "$EVD"
git -C /repo checkout -- . ; git -C /repo status --porcelain | head -3
echo "== done $(basename $(dirname $P))"
